#!/bin/sh
# run every check's quick (or given) tier, print one summary line per check
TIER=${1:-quick}
cd "$(dirname "$0")"
./check build || exit 2
rc=0
for id in C01 C02 C03 C04 C05 C06 C07 C08 C09 C10 C11 C12 C13 C14 C15 C16; do
    ./sim/target/release/simctl check $id --tier $TIER > /tmp/verif-$id.log 2>&1
    e=$?
    printf "%s exit=%s  " $id $e; tail -1 /tmp/verif-$id.log
    grep -h "signature" /tmp/verif-$id.log | sort | uniq -c | sed 's/^/        /'
    grep -h "^KNOWN-FINDING" /tmp/verif-$id.log | cut -c1-160 | sed 's/^/        /'
    grep -h "HARNESS-ERROR" /tmp/verif-$id.log | sort | uniq -c | head -3 | sed 's/^/        /'
    [ $e -ne 0 ] && rc=1
done
exit $rc
