#!/usr/bin/env python3
# summarise violations printed in a check log by (signature, detail-prefix)
import sys,re,collections
c=collections.Counter(); 
lines=open(sys.argv[1]).read().split('\n')
for i,l in enumerate(lines):
    if l.startswith('  signature:'):
        d=lines[i+1] if i+1<len(lines) else ''
        c[(l.strip(), re.sub(r'"[^"]*"','"…"',d.strip())[:int(sys.argv[2]) if len(sys.argv)>2 else 160])]+=1
for k,v in c.most_common(60): print(v,k)
