//! One PRNG for everything: splitmix64 seeding + xoshiro256**.
//! No draw ever happens in a logging path.

#[derive(Clone, Debug)]
pub struct Rng {
    s: [u64; 4],
}

pub fn splitmix(x: &mut u64) -> u64 {
    *x = x.wrapping_add(0x9E37_79B9_7F4A_7C15);
    let mut z = *x;
    z = (z ^ (z >> 30)).wrapping_mul(0xBF58_476D_1CE4_E5B9);
    z = (z ^ (z >> 27)).wrapping_mul(0x94D0_49BB_1331_11EB);
    z ^ (z >> 31)
}

/// Derive a run seed from (global seed, stream tag, run index).
pub fn derive(seed: u64, tag: &str, idx: u64) -> u64 {
    let mut x = seed ^ 0xA076_1D64_78BD_642F;
    for b in tag.bytes() {
        x = x.wrapping_mul(0x100_0000_01B3) ^ (b as u64);
        splitmix(&mut x);
    }
    x ^= idx.wrapping_mul(0xE703_7ED1_A0B4_28DB);
    splitmix(&mut x)
}

/// A 32-byte generator seed whose first ChaCha12 output word is within 2^-20
/// of the top of the u32 range: a `gen_range` drawn first from a generator
/// seeded with it lands at the very top of its range. (What rand's ThreadRng
/// does with the 32 bytes it gets from getrandom.)
pub fn top_of_range_seed() -> String {
    use rand_chacha::ChaCha12Rng;
    use rand_core::{RngCore, SeedableRng};
    let mut ctr = 0u64;
    loop {
        let mut seed = [0u8; 32];
        let mut x = ctr;
        for ch in seed.chunks_mut(8) {
            ch.copy_from_slice(&splitmix(&mut x).to_le_bytes());
        }
        let mut r = ChaCha12Rng::from_seed(seed);
        if r.next_u32() >= 0xFFFF_F800 {
            return seed.iter().map(|b| format!("{b:02x}")).collect();
        }
        ctr += 1;
    }
}

impl Rng {
    pub fn new(seed: u64) -> Self {
        let mut x = seed;
        let s = [
            splitmix(&mut x),
            splitmix(&mut x),
            splitmix(&mut x),
            splitmix(&mut x),
        ];
        Rng { s }
    }
    pub fn next(&mut self) -> u64 {
        let r = self.s[1].wrapping_mul(5).rotate_left(7).wrapping_mul(9);
        let t = self.s[1] << 17;
        self.s[2] ^= self.s[0];
        self.s[3] ^= self.s[1];
        self.s[1] ^= self.s[2];
        self.s[0] ^= self.s[3];
        self.s[2] ^= t;
        self.s[3] = self.s[3].rotate_left(45);
        r
    }
    /// uniform in 0..n (n>0)
    pub fn below(&mut self, n: u64) -> u64 {
        if n <= 1 {
            return 0;
        }
        // multiply-shift; bias is irrelevant here
        ((self.next() as u128 * n as u128) >> 64) as u64
    }
    pub fn range(&mut self, lo: u64, hi_incl: u64) -> u64 {
        lo + self.below(hi_incl - lo + 1)
    }
    pub fn chance(&mut self, num: u64, den: u64) -> bool {
        self.below(den) < num
    }
    pub fn pick<'a, T>(&mut self, v: &'a [T]) -> &'a T {
        &v[self.below(v.len() as u64) as usize]
    }
    pub fn fill(&mut self, buf: &mut [u8]) {
        for ch in buf.chunks_mut(8) {
            let r = self.next().to_le_bytes();
            ch.copy_from_slice(&r[..ch.len()]);
        }
    }
    pub fn fork(&mut self) -> Rng {
        Rng::new(self.next())
    }
}
