//! Operations: one enum for every public libpathrs operation, through both
//! facades (Rust API and C API). They execute on a *caller thread* (filtered),
//! bracketed by BEGIN_OP / END_OP hypercalls.
#![allow(dead_code)]

use crate::seam;
use pathrs::error::{Error as PError, ErrorKind};
use pathrs::flags::{OpenFlags, RenameFlags, ResolverFlags};
use pathrs::procfs::{ProcfsBase, ProcfsHandle};
use pathrs::{HandleRef, InodeType, RootRef};
use serde_json::{json, Value};
use std::ffi::CString;
use std::fs::Permissions;
use std::os::raw::{c_char, c_int, c_uint};
use std::os::unix::ffi::OsStrExt;
use std::os::unix::fs::PermissionsExt;
use std::os::unix::io::{AsRawFd, BorrowedFd, FromRawFd, IntoRawFd, OwnedFd};
use std::path::Path;
use std::sync::atomic::{AtomicI32, Ordering};

#[repr(C)]
pub struct CError {
    pub saved_errno: u64,
    pub description: *const c_char,
}

extern "C" {
    fn pathrs_open_root(path: *const c_char) -> c_int;
    fn pathrs_reopen(fd: c_int, flags: c_int) -> c_int;
    fn pathrs_inroot_resolve(root: c_int, path: *const c_char) -> c_int;
    fn pathrs_inroot_resolve_nofollow(root: c_int, path: *const c_char) -> c_int;
    fn pathrs_inroot_open(root: c_int, path: *const c_char, flags: c_int) -> c_int;
    fn pathrs_inroot_readlink(root: c_int, path: *const c_char, buf: *mut c_char, sz: usize) -> c_int;
    fn pathrs_inroot_rename(root: c_int, src: *const c_char, dst: *const c_char, flags: u32) -> c_int;
    fn pathrs_inroot_rmdir(root: c_int, path: *const c_char) -> c_int;
    fn pathrs_inroot_unlink(root: c_int, path: *const c_char) -> c_int;
    fn pathrs_inroot_remove_all(root: c_int, path: *const c_char) -> c_int;
    fn pathrs_inroot_creat(root: c_int, path: *const c_char, flags: c_int, mode: c_uint) -> c_int;
    fn pathrs_inroot_mkdir(root: c_int, path: *const c_char, mode: c_uint) -> c_int;
    fn pathrs_inroot_mkdir_all(root: c_int, path: *const c_char, mode: c_uint) -> c_int;
    fn pathrs_inroot_mknod(root: c_int, path: *const c_char, mode: c_uint, dev: libc::dev_t) -> c_int;
    fn pathrs_inroot_symlink(root: c_int, path: *const c_char, target: *const c_char) -> c_int;
    fn pathrs_inroot_hardlink(root: c_int, path: *const c_char, target: *const c_char) -> c_int;
    fn pathrs_proc_open(base: u64, path: *const c_char, flags: c_int) -> c_int;
    fn pathrs_proc_readlink(base: u64, path: *const c_char, buf: *mut c_char, sz: usize) -> c_int;
    fn pathrs_errorinfo(id: c_int) -> *mut CError;
    fn pathrs_errorinfo_free(p: *mut CError);
}

pub const PATHRS_PROC_ROOT: u64 = 0x5001_FFFF;
pub const PATHRS_PROC_SELF: u64 = 0x091D_5E1F;
pub const PATHRS_PROC_THREAD_SELF: u64 = 0x3EAD_5E1F;

#[derive(Clone, Copy, Debug, PartialEq, Eq)]
pub enum Facade {
    Rust,
    C,
}

#[derive(Clone, Debug, PartialEq)]
pub enum CreateKind {
    File(u32),
    Dir(u32),
    Symlink(String),
    Hardlink(String),
    Fifo(u32),
    Chr(u32, u64),
    Blk(u32, u64),
    /// C facade only: raw mknod mode word (for S_IFMT decoding)
    RawMknod(u32, u64),
}

#[derive(Clone, Copy, Debug, PartialEq, Eq)]
pub enum Base {
    Root,
    SelfP,
    ThreadSelf,
    /// invalid base value (C facade only)
    Bad(u64),
}

#[derive(Clone, Copy, Debug, PartialEq, Eq)]
pub enum ProcCtor {
    New,
    /// try_from_fd on a plain open("/proc")
    FromPlainOpen,
    /// try_from_fd on open_tree(/proc, CLONE) non-recursive
    FromOpenTree,
    /// try_from_fd on open_tree(/proc, CLONE|RECURSIVE)
    FromOpenTreeRec,
    /// try_from_fd on fsopen/fsmount without subset
    FromFsopen,
}

#[derive(Clone, Debug, PartialEq)]
pub enum Op {
    OpenRoot { path: String },
    Resolve { path: String, nofollow: bool },
    OpenSubpath { path: String, flags: i32 },
    Readlink { path: String, bufsz: i64 },
    Create { path: String, kind: CreateKind },
    CreateFile { path: String, flags: i32, mode: u32 },
    MkdirAll { path: String, mode: u32 },
    RemoveFile { path: String },
    RemoveDir { path: String },
    RemoveAll { path: String },
    Rename { src: String, dst: String, flags: u32 },
    /// reopen the descriptor in slot `slot`
    Reopen { slot: usize, flags: i32 },
    /// The whole scenario runs in a caller thread that has a *private*
    /// descriptor table (unshare(CLONE_FILES)): the thread opens `path` of the
    /// world itself (descriptor n, only in its own table), asks the supervisor
    /// to put a decoy at number n in the thread-group leader's table
    /// (`plant`), reopens n through libpathrs (Rust or C facade) and compares
    /// inodes itself. Outcome::Harness(0) = same inode, (1) = another inode.
    ReopenPrivateTable { path: String, flags: i32, plant: bool },
    /// composite harness operation: the caller unshares its descriptor table, the supervisor plants
    /// handles to a directory outside the root at the next free numbers of the thread-group leader's
    /// table, then mkdir_all(path) through the library; Harness(0) ok, 1 returned handle outside the
    /// root, 2 something was created in the planted directory
    MkdirAllPrivateTable { path: String, mode: u32 },
    /// procfs through handle `handle` (None = global handle, C facade only)
    ProcOpen { handle: Option<usize>, base: Base, path: String, flags: i32, follow: bool },
    ProcReadlink { handle: Option<usize>, base: Base, path: String, bufsz: i64 },
    ProcNew { ctor: ProcCtor, store: usize },
    /// pathrs_errorinfo on the id kept in id-slot `idslot`
    ErrorInfo { idslot: usize },
    /// pathrs_errorinfo on an arbitrary value that was never returned as an id
    ErrorInfoRaw { id: i32 },
    /// raw per-thread setresuid(-1, uid, -1) (harness action on the caller thread)
    SetEuid { uid: u32 },
    /// harness action performed by the supervisor at this point
    Sup { muts: Vec<crate::world::Mutation> },
    /// close a slot descriptor (harness action)
    CloseSlot { slot: usize },
    /// try_clone of root
    CloneRoot,
    /// C facade with an invalid argument class
    CBadArg { func: String, class: String },
}

#[derive(Clone, Debug, PartialEq)]
pub struct OpSpec {
    pub op: Op,
    pub facade: Facade,
    /// slot of the root descriptor to use
    pub root: usize,
    /// ResolverFlags::NO_SYMLINKS on the RootRef (Rust facade only)
    pub no_symlinks: bool,
    /// slot to store a returned descriptor in (None: supervisor closes it at END_OP)
    pub store: Option<usize>,
    /// C facade: do not consume the error id, keep it in this id-slot
    pub keep_id: Option<usize>,
}

impl OpSpec {
    pub fn new(op: Op) -> OpSpec {
        OpSpec { op, facade: Facade::Rust, root: 0, no_symlinks: false, store: None, keep_id: None }
    }
    pub fn c(mut self) -> OpSpec {
        self.facade = Facade::C;
        self
    }
    pub fn facade(mut self, f: Facade) -> OpSpec {
        self.facade = f;
        self
    }
    pub fn nosym(mut self, b: bool) -> OpSpec {
        self.no_symlinks = b;
        self
    }
    pub fn store(mut self, s: usize) -> OpSpec {
        self.store = Some(s);
        self
    }
    pub fn name(&self) -> &'static str {
        match &self.op {
            Op::OpenRoot { .. } => "open_root",
            Op::Resolve { nofollow: false, .. } => "resolve",
            Op::Resolve { nofollow: true, .. } => "resolve_nofollow",
            Op::OpenSubpath { .. } => "open_subpath",
            Op::Readlink { .. } => "readlink",
            Op::Create { .. } => "create",
            Op::CreateFile { .. } => "create_file",
            Op::MkdirAll { .. } => "mkdir_all",
            Op::RemoveFile { .. } => "remove_file",
            Op::RemoveDir { .. } => "remove_dir",
            Op::RemoveAll { .. } => "remove_all",
            Op::Rename { .. } => "rename",
            Op::Reopen { .. } => "reopen",
            Op::ReopenPrivateTable { .. } => "reopen",
            Op::MkdirAllPrivateTable { .. } => "mkdir_all",
            Op::ProcOpen { follow: true, .. } => "proc_open_follow",
            Op::ProcOpen { follow: false, .. } => "proc_open",
            Op::ProcReadlink { .. } => "proc_readlink",
            Op::ProcNew { .. } => "proc_new",
            Op::ErrorInfo { .. } | Op::ErrorInfoRaw { .. } => "errorinfo",
            Op::SetEuid { .. } => "seteuid",
            Op::Sup { .. } => "sup",
            Op::CloseSlot { .. } => "close_slot",
            Op::CloneRoot => "clone_root",
            Op::CBadArg { .. } => "c_badarg",
        }
    }
    /// is this a libpathrs call (as opposed to a harness action)?
    pub fn is_lib_call(&self) -> bool {
        !matches!(self.op, Op::SetEuid { .. } | Op::Sup { .. } | Op::CloseSlot { .. })
    }

    pub fn to_json(&self) -> Value {
        let op = match &self.op {
            Op::OpenRoot { path } => json!(["open_root", path]),
            Op::Resolve { path, nofollow } => json!(["resolve", path, nofollow]),
            Op::OpenSubpath { path, flags } => json!(["open_subpath", path, flags]),
            Op::Readlink { path, bufsz } => json!(["readlink", path, bufsz]),
            Op::Create { path, kind } => {
                let k = match kind {
                    CreateKind::File(m) => json!(["file", m]),
                    CreateKind::Dir(m) => json!(["dir", m]),
                    CreateKind::Symlink(t) => json!(["symlink", t]),
                    CreateKind::Hardlink(t) => json!(["hardlink", t]),
                    CreateKind::Fifo(m) => json!(["fifo", m]),
                    CreateKind::Chr(m, d) => json!(["chr", m, d]),
                    CreateKind::Blk(m, d) => json!(["blk", m, d]),
                    CreateKind::RawMknod(m, d) => json!(["rawmknod", m, d]),
                };
                json!(["create", path, k])
            }
            Op::CreateFile { path, flags, mode } => json!(["create_file", path, flags, mode]),
            Op::MkdirAll { path, mode } => json!(["mkdir_all", path, mode]),
            Op::RemoveFile { path } => json!(["remove_file", path]),
            Op::RemoveDir { path } => json!(["remove_dir", path]),
            Op::RemoveAll { path } => json!(["remove_all", path]),
            Op::Rename { src, dst, flags } => json!(["rename", src, dst, flags]),
            Op::Reopen { slot, flags } => json!(["reopen", slot, flags]),
            Op::ReopenPrivateTable { path, flags, plant } => json!(["reopen_private_table", path, flags, plant]),
            Op::MkdirAllPrivateTable { path, mode } => json!(["mkdir_all_private_table", path, mode]),
            Op::ProcOpen { handle, base, path, flags, follow } => {
                json!(["proc_open", handle, base_to_json(*base), path, flags, follow])
            }
            Op::ProcReadlink { handle, base, path, bufsz } => {
                json!(["proc_readlink", handle, base_to_json(*base), path, bufsz])
            }
            Op::ProcNew { ctor, store } => json!(["proc_new", format!("{ctor:?}"), store]),
            Op::ErrorInfo { idslot } => json!(["errorinfo", idslot]),
            Op::ErrorInfoRaw { id } => json!(["errorinfo_raw", id]),
            Op::SetEuid { uid } => json!(["seteuid", uid]),
            Op::Sup { muts } => json!(["sup", muts.iter().map(|m| m.to_json()).collect::<Vec<_>>()]),
            Op::CloseSlot { slot } => json!(["close_slot", slot]),
            Op::CloneRoot => json!(["clone_root"]),
            Op::CBadArg { func, class } => json!(["c_badarg", func, class]),
        };
        json!({
            "op": op,
            "facade": if self.facade == Facade::C { "c" } else { "rust" },
            "root": self.root,
            "no_symlinks": self.no_symlinks,
            "store": self.store,
            "keep_id": self.keep_id,
        })
    }

    pub fn from_json(v: &Value) -> Option<OpSpec> {
        let a = v.get("op")?.as_array()?;
        let s = |i: usize| a.get(i).and_then(|x| x.as_str()).unwrap_or("").to_string();
        let n = |i: usize| a.get(i).and_then(|x| x.as_i64()).unwrap_or(0);
        let b = |i: usize| a.get(i).and_then(|x| x.as_bool()).unwrap_or(false);
        let op = match a.first()?.as_str()? {
            "open_root" => Op::OpenRoot { path: s(1) },
            "resolve" => Op::Resolve { path: s(1), nofollow: b(2) },
            "open_subpath" => Op::OpenSubpath { path: s(1), flags: n(2) as i32 },
            "readlink" => Op::Readlink { path: s(1), bufsz: n(2) },
            "create" => {
                let k = a.get(2)?.as_array()?;
                let kn = |i: usize| k.get(i).and_then(|x| x.as_u64()).unwrap_or(0);
                let ks = |i: usize| k.get(i).and_then(|x| x.as_str()).unwrap_or("").to_string();
                let kind = match k.first()?.as_str()? {
                    "file" => CreateKind::File(kn(1) as u32),
                    "dir" => CreateKind::Dir(kn(1) as u32),
                    "symlink" => CreateKind::Symlink(ks(1)),
                    "hardlink" => CreateKind::Hardlink(ks(1)),
                    "fifo" => CreateKind::Fifo(kn(1) as u32),
                    "chr" => CreateKind::Chr(kn(1) as u32, kn(2)),
                    "blk" => CreateKind::Blk(kn(1) as u32, kn(2)),
                    "rawmknod" => CreateKind::RawMknod(kn(1) as u32, kn(2)),
                    _ => return None,
                };
                Op::Create { path: s(1), kind }
            }
            "create_file" => Op::CreateFile { path: s(1), flags: n(2) as i32, mode: n(3) as u32 },
            "mkdir_all" => Op::MkdirAll { path: s(1), mode: n(2) as u32 },
            "remove_file" => Op::RemoveFile { path: s(1) },
            "remove_dir" => Op::RemoveDir { path: s(1) },
            "remove_all" => Op::RemoveAll { path: s(1) },
            "rename" => Op::Rename { src: s(1), dst: s(2), flags: n(3) as u32 },
            "reopen" => Op::Reopen { slot: n(1) as usize, flags: n(2) as i32 },
            "mkdir_all_private_table" => Op::MkdirAllPrivateTable { path: s(1), mode: n(2) as u32 },
            "reopen_private_table" => Op::ReopenPrivateTable { path: s(1), flags: n(2) as i32, plant: a.get(3).and_then(|x| x.as_bool()).unwrap_or(false) },
            "proc_open" => Op::ProcOpen {
                handle: a.get(1).and_then(|x| x.as_u64()).map(|x| x as usize),
                base: base_from_json(a.get(2)?),
                path: s(3),
                flags: n(4) as i32,
                follow: b(5),
            },
            "proc_readlink" => Op::ProcReadlink {
                handle: a.get(1).and_then(|x| x.as_u64()).map(|x| x as usize),
                base: base_from_json(a.get(2)?),
                path: s(3),
                bufsz: n(4),
            },
            "proc_new" => Op::ProcNew {
                ctor: match s(1).as_str() {
                    "New" => ProcCtor::New,
                    "FromPlainOpen" => ProcCtor::FromPlainOpen,
                    "FromOpenTree" => ProcCtor::FromOpenTree,
                    "FromOpenTreeRec" => ProcCtor::FromOpenTreeRec,
                    _ => ProcCtor::FromFsopen,
                },
                store: n(2) as usize,
            },
            "errorinfo" => Op::ErrorInfo { idslot: n(1) as usize },
            "errorinfo_raw" => Op::ErrorInfoRaw { id: n(1) as i32 },
            "seteuid" => Op::SetEuid { uid: n(1) as u32 },
            "sup" => Op::Sup {
                muts: a.get(1)?.as_array()?.iter().filter_map(crate::world::Mutation::from_json).collect(),
            },
            "close_slot" => Op::CloseSlot { slot: n(1) as usize },
            "clone_root" => Op::CloneRoot,
            "c_badarg" => Op::CBadArg { func: s(1), class: s(2) },
            _ => return None,
        };
        Some(OpSpec {
            op,
            facade: if v.get("facade").and_then(|x| x.as_str()) == Some("c") { Facade::C } else { Facade::Rust },
            root: v.get("root").and_then(|x| x.as_u64()).unwrap_or(0) as usize,
            no_symlinks: v.get("no_symlinks").and_then(|x| x.as_bool()).unwrap_or(false),
            store: v.get("store").and_then(|x| x.as_u64()).map(|x| x as usize),
            keep_id: v.get("keep_id").and_then(|x| x.as_u64()).map(|x| x as usize),
        })
    }
}

fn base_to_json(b: Base) -> Value {
    match b {
        Base::Root => json!("root"),
        Base::SelfP => json!("self"),
        Base::ThreadSelf => json!("thread-self"),
        Base::Bad(v) => json!(v),
    }
}
fn base_from_json(v: &Value) -> Base {
    match v.as_str() {
        Some("root") => Base::Root,
        Some("self") => Base::SelfP,
        Some("thread-self") => Base::ThreadSelf,
        _ => Base::Bad(v.as_u64().unwrap_or(0)),
    }
}

/// What an operation returned, as seen by the caller.
#[derive(Clone, Debug, PartialEq)]
pub enum Outcome {
    /// a descriptor (raw number; the supervisor inspects and closes/stores it)
    Fd(i32),
    Unit,
    Bytes(Vec<u8>),
    /// C readlink: (returned length, buffer contents after the call, guard intact)
    CBytes { ret: i64, buf: Vec<u8>, guard_ok: bool },
    Err { kind: String, errno: i32, desc: String },
    /// C facade failure whose id was kept (not consumed)
    CErrKept { id: i32 },
    /// errorinfo result: (id passed, None = NULL)
    Info(i32, Option<(u64, String)>),
    Panic(String),
    /// harness action done
    Harness(i64),
}

impl Outcome {
    pub fn is_ok(&self) -> bool {
        matches!(self, Outcome::Fd(_) | Outcome::Unit | Outcome::Bytes(_) | Outcome::CBytes { .. })
    }
    pub fn errno(&self) -> Option<i32> {
        match self {
            Outcome::Err { errno, .. } => Some(*errno),
            _ => None,
        }
    }
    /// short class string used in records and evidence
    pub fn class(&self) -> String {
        match self {
            Outcome::Fd(_) => "ok:fd".into(),
            Outcome::Unit => "ok".into(),
            Outcome::Bytes(_) | Outcome::CBytes { .. } => "ok:bytes".into(),
            Outcome::Err { kind, errno, .. } => format!("err:{kind}:{}", crate::sys::errname(*errno)),
            Outcome::CErrKept { .. } => "err:kept".into(),
            Outcome::Info(_, Some(_)) => "info".into(),
            Outcome::Info(_, None) => "info:null".into(),
            Outcome::Panic(_) => "panic".into(),
            Outcome::Harness(_) => "harness".into(),
        }
    }
}

// ------------------------------------------------------------- shared state
// Only one caller thread runs at a time and the supervisor only touches these
// while every caller is parked, so plain atomics / an UnsafeCell are enough.

pub const NSLOTS: usize = 32;
pub static SLOTS: [AtomicI32; NSLOTS] = {
    const Z: AtomicI32 = AtomicI32::new(-1);
    [Z; NSLOTS]
};
pub static IDSLOTS: [AtomicI32; NSLOTS] = {
    const Z: AtomicI32 = AtomicI32::new(0);
    [Z; NSLOTS]
};

pub struct Shared<T>(pub std::cell::UnsafeCell<T>);
unsafe impl<T> Sync for Shared<T> {}
impl<T> Shared<T> {
    pub const fn new(t: T) -> Self {
        Shared(std::cell::UnsafeCell::new(t))
    }
    #[allow(clippy::mut_from_ref)]
    pub fn get(&self) -> &mut T {
        unsafe { &mut *self.0.get() }
    }
}

pub static PROC_HANDLES: Shared<Vec<Option<ProcfsHandle>>> = Shared::new(Vec::new());

pub fn slot(i: usize) -> i32 {
    SLOTS[i].load(Ordering::SeqCst)
}
pub fn set_slot(i: usize, fd: i32) {
    SLOTS[i].store(fd, Ordering::SeqCst)
}

fn cs(s: &str) -> CString {
    crate::sys::cstr(s.as_bytes())
}

fn kind_str(k: ErrorKind) -> (String, i32) {
    match k {
        ErrorKind::NotImplemented => ("NotImplemented".into(), libc::ENOSYS),
        ErrorKind::NotSupported => ("NotSupported".into(), 0),
        ErrorKind::InvalidArgument => ("InvalidArgument".into(), libc::EINVAL),
        ErrorKind::SafetyViolation => ("SafetyViolation".into(), libc::EXDEV),
        ErrorKind::InternalError => ("InternalError".into(), 0),
        ErrorKind::OsError(e) => ("OsError".into(), e.unwrap_or(0)),
        _ => ("Other".into(), 0),
    }
}

fn describe(err: &PError) -> String {
    use std::error::Error as _;
    let mut desc = err.to_string();
    let mut e: &dyn std::error::Error = err;
    while let Some(n) = e.source() {
        desc.push_str(": ");
        desc.push_str(&n.to_string());
        e = n;
    }
    desc
}

fn rust_err(err: PError) -> Outcome {
    let (kind, errno) = kind_str(err.kind());
    Outcome::Err { kind, errno, desc: describe(&err) }
}

fn rust_fd<T: Into<OwnedFd>>(r: Result<T, PError>) -> Outcome {
    match r {
        Ok(f) => Outcome::Fd(f.into().into_raw_fd()),
        Err(e) => rust_err(e),
    }
}
fn rust_unit(r: Result<(), PError>) -> Outcome {
    match r {
        Ok(()) => Outcome::Unit,
        Err(e) => rust_err(e),
    }
}

/// C facade return value -> Outcome. Negative: fetch (consume) the error.
fn c_ret(ret: c_int, want_fd: bool, keep: Option<usize>) -> Outcome {
    if ret >= 0 {
        return if want_fd { Outcome::Fd(ret) } else { Outcome::Unit };
    }
    if let Some(k) = keep {
        IDSLOTS[k].store(ret, Ordering::SeqCst);
        return Outcome::CErrKept { id: ret };
    }
    c_consume(ret)
}

pub fn c_consume(id: c_int) -> Outcome {
    unsafe {
        let p = pathrs_errorinfo(id);
        if p.is_null() {
            return Outcome::Err { kind: format!("C:id={id}:noinfo"), errno: 0, desc: "errorinfo returned NULL".into() };
        }
        let errno = (*p).saved_errno as i32;
        let desc = if (*p).description.is_null() {
            String::new()
        } else {
            std::ffi::CStr::from_ptr((*p).description).to_string_lossy().into_owned()
        };
        pathrs_errorinfo_free(p);
        let kind = if id > -4096 { format!("C:BADID({id})") } else { "C".to_string() };
        Outcome::Err { kind, errno, desc }
    }
}

fn rbase(b: Base) -> ProcfsBase {
    match b {
        Base::Root => ProcfsBase::ProcRoot,
        Base::SelfP => ProcfsBase::ProcSelf,
        _ => ProcfsBase::ProcThreadSelf,
    }
}
fn cbase(b: Base) -> u64 {
    match b {
        Base::Root => PATHRS_PROC_ROOT,
        Base::SelfP => PATHRS_PROC_SELF,
        Base::ThreadSelf => PATHRS_PROC_THREAD_SELF,
        Base::Bad(v) => v,
    }
}

const GUARD: u8 = 0xA5;

/// Execute one operation on the calling (filtered) thread.
pub fn exec(spec: &OpSpec) -> Outcome {
    let rootfd = slot(spec.root);
    match spec.facade {
        Facade::Rust => exec_rust(spec, rootfd),
        Facade::C => exec_c(spec, rootfd),
    }
}

fn harness_op(spec: &OpSpec) -> Option<Outcome> {
    match &spec.op {
        Op::SetEuid { uid } => {
            let r = unsafe { libc::syscall(libc::SYS_setresuid, -1i64, *uid as i64, -1i64) };
            Some(Outcome::Harness(r))
        }
        Op::Sup { .. } => Some(Outcome::Harness(0)), // done by the supervisor at BEGIN_OP
        Op::ReopenPrivateTable { path, flags, plant } => {
            seam::hypercall(seam::HC_HARNESS, 0, 1);
            unsafe { libc::unshare(libc::CLONE_FILES) };
            seam::hypercall(seam::HC_HARNESS, 0, 2);
            let n = unsafe {
                let p = std::ffi::CString::new(format!("/mnt/w/root/{path}")).unwrap();
                libc::openat(libc::AT_FDCWD, p.as_ptr(), libc::O_PATH | libc::O_NOFOLLOW | libc::O_CLOEXEC)
            };
            if n < 0 {
                seam::hypercall(seam::HC_HARNESS, 0, 0);
                return Some(Outcome::Harness(-2));
            }
            if *plant {
                seam::hypercall(seam::HC_PLANT, n as u64, 1);
            }
            seam::hypercall(seam::HC_HARNESS, 0, 0);
            let res: Result<OwnedFd, Outcome> = match spec.facade {
                Facade::Rust => {
                    let h = HandleRef::from_fd(unsafe { BorrowedFd::borrow_raw(n) });
                    h.reopen(OpenFlags::from_bits_retain(*flags)).map(OwnedFd::from).map_err(rust_err)
                }
                Facade::C => {
                    let r = unsafe { pathrs_reopen(n, *flags) };
                    if r >= 0 {
                        Ok(unsafe { OwnedFd::from_raw_fd(r) })
                    } else {
                        Err(c_ret(r, true, None))
                    }
                }
            };
            seam::hypercall(seam::HC_HARNESS, 0, 1);
            let out = match res {
                Ok(fd) => {
                    let (mut a, mut b): (libc::stat, libc::stat) = unsafe { (std::mem::zeroed(), std::mem::zeroed()) };
                    let same = unsafe { libc::fstat(n, &mut a) == 0 && libc::fstat(fd.as_raw_fd(), &mut b) == 0 && a.st_dev == b.st_dev && a.st_ino == b.st_ino };
                    drop(fd);
                    Outcome::Harness(if same { 0 } else { 1 })
                }
                Err(o) => o,
            };
            unsafe { libc::close(n) };
            if *plant {
                seam::hypercall(seam::HC_PLANT, n as u64, 0);
            }
            seam::hypercall(seam::HC_HARNESS, 0, 0);
            Some(out)
        }
        Op::MkdirAllPrivateTable { path, mode } => {
            seam::hypercall(seam::HC_HARNESS, 0, 1);
            // the root is opened by the caller itself, after the unshare: descriptors that the
            // supervisor opens later (the root slot of later runs) only exist in the leader's table
            unsafe { libc::unshare(libc::CLONE_FILES) };
            seam::hypercall(seam::HC_HARNESS, 0, 2);
            let rootfd = unsafe { libc::openat(libc::AT_FDCWD, b"/mnt/w/root\0".as_ptr() as *const c_char, libc::O_PATH | libc::O_DIRECTORY | libc::O_CLOEXEC) };
            // the numbers the library's descriptors will get in the private table are the lowest free
            // ones; they are free in the leader's table as well (it has not changed since the unshare,
            // apart from descriptors this thread cannot see)
            let n0 = unsafe {
                let d = libc::fcntl(rootfd, libc::F_DUPFD_CLOEXEC, 3);
                if d >= 0 {
                    libc::close(d);
                }
                d
            };
            if rootfd < 0 || n0 < 0 {
                seam::hypercall(seam::HC_HARNESS, 0, 0);
                return Some(Outcome::Harness(-2));
            }
            for k in 0..10 {
                seam::hypercall(seam::HC_PLANT, (n0 + k) as u64, 2);
            }
            seam::hypercall(seam::HC_HARNESS, 0, 0);
            let res: Result<OwnedFd, Outcome> = match spec.facade {
                Facade::Rust => {
                    let root = RootRef::from_fd(unsafe { BorrowedFd::borrow_raw(rootfd) });
                    root.mkdir_all(Path::new(path), &std::fs::Permissions::from_mode(*mode)).map(OwnedFd::from).map_err(rust_err)
                }
                Facade::C => {
                    let r = unsafe { pathrs_inroot_mkdir_all(rootfd, cs(path).as_ptr(), *mode) };
                    if r >= 0 {
                        Ok(unsafe { OwnedFd::from_raw_fd(r) })
                    } else {
                        Err(c_ret(r, true, None))
                    }
                }
            };
            seam::hypercall(seam::HC_HARNESS, 0, 1);
            let mut code = 0i64;
            let mut err: Option<Outcome> = None;
            match res {
                Ok(fd) => {
                    // (through thread-self: /proc/self/fd is the leader's table)
                    let p = crate::sys::readlinkat(libc::AT_FDCWD, format!("/proc/thread-self/fd/{}", fd.as_raw_fd()).as_bytes()).unwrap_or_default();
                    if !(p == b"/mnt/w/root" || p.starts_with(b"/mnt/w/root/")) {
                        code = 1;
                    }
                    drop(fd);
                }
                Err(o) => err = Some(o),
            }
            unsafe { libc::close(rootfd) };
            // anything new in the planted directory?
            if let Ok(ents) = crate::sys::listdir(b"/mnt/w/outside/landing") {
                if ents.iter().any(|e| e.starts_with(b"pt-")) {
                    code = 2;
                }
            }
            for k in 0..10 {
                seam::hypercall(seam::HC_PLANT, (n0 + k) as u64, 0);
            }
            seam::hypercall(seam::HC_HARNESS, 0, 0);
            Some(if code != 0 { Outcome::Harness(code) } else { err.unwrap_or(Outcome::Harness(0)) })
        }
        Op::CloseSlot { slot: s } => {
            let fd = slot(*s);
            if fd >= 0 {
                unsafe { libc::close(fd) };
                set_slot(*s, -1);
            }
            Some(Outcome::Harness(0))
        }
        Op::ProcNew { ctor, store } => {
            let r = match ctor {
                ProcCtor::New => ProcfsHandle::new(),
                other => {
                    // the descriptor is made by the harness with raw calls
                    seam::hypercall(seam::HC_HARNESS, 0, 1);
                    let fd = unsafe {
                        match other {
                            ProcCtor::FromPlainOpen => {
                                libc::openat(libc::AT_FDCWD, b"/proc\0".as_ptr() as *const c_char, libc::O_PATH | libc::O_DIRECTORY | libc::O_CLOEXEC)
                            }
                            ProcCtor::FromOpenTree => libc::syscall(
                                libc::SYS_open_tree,
                                libc::AT_FDCWD,
                                b"/proc\0".as_ptr() as *const c_char,
                                1u32 | libc::O_CLOEXEC as u32,
                            ) as i32,
                            ProcCtor::FromOpenTreeRec => libc::syscall(
                                libc::SYS_open_tree,
                                libc::AT_FDCWD,
                                b"/proc\0".as_ptr() as *const c_char,
                                1u32 | 0x8000u32 | libc::O_CLOEXEC as u32,
                            ) as i32,
                            _ => crate::sys::fsopen_proc(false).unwrap_or(-1),
                        }
                    };
                    seam::hypercall(seam::HC_HARNESS, 0, 0);
                    if fd < 0 {
                        return Some(Outcome::Err { kind: "Harness".into(), errno: crate::sys::errno(), desc: "ctor fd".into() });
                    }
                    ProcfsHandle::try_from_fd(unsafe { OwnedFd::from_raw_fd(fd) })
                }
            };
            match r {
                Ok(h) => {
                    let tab = PROC_HANDLES.get();
                    while tab.len() <= *store {
                        tab.push(None);
                    }
                    tab[*store] = Some(h);
                    Some(Outcome::Unit)
                }
                Err(e) => Some(rust_err(e)),
            }
        }
        _ => None,
    }
}

/// the operations of a root, written once for `RootRef` (borrowed descriptor) and once for the
/// owned `Root` (whose methods are separate wrappers in the library)
macro_rules! root_level_op {
    ($root:expr, $spec:expr) => {
        match &$spec.op {
            Op::Resolve { path, nofollow: false } => Some(rust_fd($root.resolve(path))),
            Op::Resolve { path, nofollow: true } => Some(rust_fd($root.resolve_nofollow(path))),
            Op::OpenSubpath { path, flags } => Some(rust_fd($root.open_subpath(path, OpenFlags::from_bits_retain(*flags)))),
            Op::Readlink { path, .. } => Some(match $root.readlink(path) {
                Ok(p) => Outcome::Bytes(p.as_os_str().as_bytes().to_vec()),
                Err(e) => rust_err(e),
            }),
            Op::Create { path, kind } => {
            let it = match kind {
                CreateKind::File(m) => InodeType::File(Permissions::from_mode(*m)),
                CreateKind::Dir(m) => InodeType::Directory(Permissions::from_mode(*m)),
                CreateKind::Symlink(t) => InodeType::Symlink(t.into()),
                CreateKind::Hardlink(t) => InodeType::Hardlink(t.into()),
                CreateKind::Fifo(m) => InodeType::Fifo(Permissions::from_mode(*m)),
                CreateKind::Chr(m, d) => InodeType::CharacterDevice(Permissions::from_mode(*m), *d),
                CreateKind::Blk(m, d) => InodeType::BlockDevice(Permissions::from_mode(*m), *d),
                CreateKind::RawMknod(m, d) => InodeType::CharacterDevice(Permissions::from_mode(*m), *d),
            };
            Some(rust_unit($root.create(path, &it)))
        }
            Op::CreateFile { path, flags, mode } => {
            Some(rust_fd($root.create_file(path, OpenFlags::from_bits_retain(*flags), &Permissions::from_mode(*mode))))
        }
            Op::MkdirAll { path, mode } => Some(rust_fd($root.mkdir_all(path, &Permissions::from_mode(*mode)))),
            Op::RemoveFile { path } => Some(rust_unit($root.remove_file(path))),
            Op::RemoveDir { path } => Some(rust_unit($root.remove_dir(path))),
            Op::RemoveAll { path } => Some(rust_unit($root.remove_all(path))),
            Op::Rename { src, dst, flags } => {
            Some(rust_unit($root.rename(Path::new(src), Path::new(dst), RenameFlags::from_bits_retain(*flags))))
        }
            Op::CloneRoot => Some(rust_fd($root.try_clone())),
            _ => None,
        }
    };
}

/// half of the Rust-facade operations go through the owned `Root` (decided by the operation itself,
/// so that a replay makes the same choice)
fn owned_root_variant(spec: &OpSpec) -> bool {
    let mut h = 0xcbf29ce484222325u64;
    crate::sys::fnv(&mut h, spec.to_json().to_string().as_bytes());
    h & 1 == 1
}

fn exec_rust(spec: &OpSpec, rootfd: i32) -> Outcome {
    if let Some(o) = harness_op(spec) {
        return o;
    }
    let bfd = unsafe { BorrowedFd::borrow_raw(if rootfd >= 0 { rootfd } else { 0 }) };
    if owned_root_variant(spec) && rootfd >= 0 {
        // the owned Root: a duplicate of the descriptor made (and later closed) by the harness
        seam::hypercall(seam::HC_HARNESS, 0, 1);
        let d = unsafe { libc::fcntl(rootfd, libc::F_DUPFD_CLOEXEC, 3) };
        seam::hypercall(seam::HC_HARNESS, 0, 0);
        if d >= 0 {
            let mut root = pathrs::Root::from_fd(unsafe { OwnedFd::from_raw_fd(d) });
            if spec.no_symlinks {
                root.set_resolver_flags(ResolverFlags::NO_SYMLINKS);
            }
            let r = root_level_op!(root, spec);
            seam::hypercall(seam::HC_HARNESS, 0, 1);
            drop(root);
            seam::hypercall(seam::HC_HARNESS, 0, 0);
            if let Some(o) = r {
                return o;
            }
        }
    }
    let mut root = RootRef::from_fd(bfd);
    if spec.no_symlinks {
        root.set_resolver_flags(ResolverFlags::NO_SYMLINKS);
    }
    if let Some(o) = root_level_op!(root, spec) {
        return o;
    }
    match &spec.op {
        Op::OpenRoot { path } => rust_fd(pathrs::Root::open(path)),
        Op::Reopen { slot: s, flags } => {
            let fd = slot(*s);
            if fd < 0 {
                // the set-up operation that should have filled the slot failed
                return Outcome::Harness(-2);
            }
            let h = HandleRef::from_fd(unsafe { BorrowedFd::borrow_raw(fd) });
            rust_fd(h.reopen(OpenFlags::from_bits_retain(*flags)))
        }
        Op::ProcOpen { handle, base, path, flags, follow } => {
            let tab = PROC_HANDLES.get();
            let h = match handle.and_then(|i| tab.get(i)).and_then(|x| x.as_ref()) {
                Some(h) => h,
                None => return Outcome::Err { kind: "Harness".into(), errno: 0, desc: "no handle".into() },
            };
            let f = OpenFlags::from_bits_retain(*flags);
            if *follow {
                rust_fd(h.open_follow(rbase(*base), path, f))
            } else {
                rust_fd(h.open(rbase(*base), path, f))
            }
        }
        Op::ProcReadlink { handle, base, path, .. } => {
            let tab = PROC_HANDLES.get();
            let h = match handle.and_then(|i| tab.get(i)).and_then(|x| x.as_ref()) {
                Some(h) => h,
                None => return Outcome::Err { kind: "Harness".into(), errno: 0, desc: "no handle".into() },
            };
            match h.readlink(rbase(*base), path) {
                Ok(p) => Outcome::Bytes(p.as_os_str().as_bytes().to_vec()),
                Err(e) => rust_err(e),
            }
        }
        Op::ErrorInfo { .. } | Op::ErrorInfoRaw { .. } | Op::CBadArg { .. } => exec_c(spec, rootfd),
        _ => Outcome::Harness(-1),
    }
}

fn c_readlink(bufsz: i64, f: impl FnOnce(*mut c_char, usize) -> c_int, keep: Option<usize>) -> Outcome {
    // bufsz < 0: NULL buffer
    let n = if bufsz < 0 { 0 } else { bufsz as usize };
    let mut buf = vec![GUARD; n + 16];
    let ptr = if bufsz < 0 { std::ptr::null_mut() } else { buf.as_mut_ptr() as *mut c_char };
    let ret = f(ptr, n);
    if ret < 0 {
        return c_ret(ret, false, keep);
    }
    let guard_ok = buf[n..].iter().all(|&b| b == GUARD);
    buf.truncate(n);
    Outcome::CBytes { ret: ret as i64, buf, guard_ok }
}

fn exec_c(spec: &OpSpec, rootfd: i32) -> Outcome {
    if let Some(o) = harness_op(spec) {
        return o;
    }
    let keep = spec.keep_id;
    unsafe {
        match &spec.op {
            Op::OpenRoot { path } => c_ret(pathrs_open_root(cs(path).as_ptr()), true, keep),
            Op::Resolve { path, nofollow: false } => c_ret(pathrs_inroot_resolve(rootfd, cs(path).as_ptr()), true, keep),
            Op::Resolve { path, nofollow: true } => {
                c_ret(pathrs_inroot_resolve_nofollow(rootfd, cs(path).as_ptr()), true, keep)
            }
            Op::OpenSubpath { path, flags } => c_ret(pathrs_inroot_open(rootfd, cs(path).as_ptr(), *flags), true, keep),
            Op::Readlink { path, bufsz } => {
                let p = cs(path);
                c_readlink(*bufsz, |b, n| pathrs_inroot_readlink(rootfd, p.as_ptr(), b, n), keep)
            }
            Op::Create { path, kind } => {
                let p = cs(path);
                let r = match kind {
                    CreateKind::File(m) => pathrs_inroot_mknod(rootfd, p.as_ptr(), libc::S_IFREG | m, 0),
                    CreateKind::Dir(m) => pathrs_inroot_mkdir(rootfd, p.as_ptr(), *m),
                    CreateKind::Symlink(t) => pathrs_inroot_symlink(rootfd, p.as_ptr(), cs(t).as_ptr()),
                    CreateKind::Hardlink(t) => pathrs_inroot_hardlink(rootfd, p.as_ptr(), cs(t).as_ptr()),
                    CreateKind::Fifo(m) => pathrs_inroot_mknod(rootfd, p.as_ptr(), libc::S_IFIFO | m, 0),
                    CreateKind::Chr(m, d) => pathrs_inroot_mknod(rootfd, p.as_ptr(), libc::S_IFCHR | m, *d),
                    CreateKind::Blk(m, d) => pathrs_inroot_mknod(rootfd, p.as_ptr(), libc::S_IFBLK | m, *d),
                    CreateKind::RawMknod(m, d) => pathrs_inroot_mknod(rootfd, p.as_ptr(), *m, *d),
                };
                c_ret(r, false, keep)
            }
            Op::CreateFile { path, flags, mode } => {
                c_ret(pathrs_inroot_creat(rootfd, cs(path).as_ptr(), *flags, *mode), true, keep)
            }
            Op::MkdirAll { path, mode } => c_ret(pathrs_inroot_mkdir_all(rootfd, cs(path).as_ptr(), *mode), true, keep),
            Op::RemoveFile { path } => c_ret(pathrs_inroot_unlink(rootfd, cs(path).as_ptr()), false, keep),
            Op::RemoveDir { path } => c_ret(pathrs_inroot_rmdir(rootfd, cs(path).as_ptr()), false, keep),
            Op::RemoveAll { path } => c_ret(pathrs_inroot_remove_all(rootfd, cs(path).as_ptr()), false, keep),
            Op::Rename { src, dst, flags } => {
                c_ret(pathrs_inroot_rename(rootfd, cs(src).as_ptr(), cs(dst).as_ptr(), *flags), false, keep)
            }
            Op::Reopen { slot: s, flags } => c_ret(pathrs_reopen(slot(*s), *flags), true, keep),
            Op::ProcOpen { base, path, flags, follow, .. } => {
                // the C function decides follow/no-follow from O_NOFOLLOW
                let fl = if *follow { *flags & !libc::O_NOFOLLOW } else { *flags | libc::O_NOFOLLOW };
                c_ret(pathrs_proc_open(cbase(*base), cs(path).as_ptr(), fl), true, keep)
            }
            Op::ProcReadlink { base, path, bufsz, .. } => {
                let p = cs(path);
                let b0 = cbase(*base);
                c_readlink(*bufsz, |b, n| pathrs_proc_readlink(b0, p.as_ptr(), b, n), keep)
            }
            Op::ErrorInfo { .. } | Op::ErrorInfoRaw { .. } => {
                let id = match &spec.op {
                    Op::ErrorInfo { idslot } => IDSLOTS[*idslot].load(Ordering::SeqCst),
                    Op::ErrorInfoRaw { id } => *id,
                    _ => 0,
                };
                let p = pathrs_errorinfo(id);
                if p.is_null() {
                    Outcome::Info(id, None)
                } else {
                    let errno = (*p).saved_errno;
                    let desc = if (*p).description.is_null() {
                        String::new()
                    } else {
                        std::ffi::CStr::from_ptr((*p).description).to_string_lossy().into_owned()
                    };
                    pathrs_errorinfo_free(p);
                    Outcome::Info(id, Some((errno, desc)))
                }
            }
            Op::CBadArg { func, class } => {
                let null: *const c_char = std::ptr::null();
                let good = cs("a");
                let (fd, path) = match class.as_str() {
                    "negfd" => (-1, good.as_ptr()),
                    "negfd2" => (-9, good.as_ptr()),
                    // AT_FDCWD: a negative value with a meaning for the kernel - "the current directory"
                    "atfdcwd" => (libc::AT_FDCWD, good.as_ptr()),
                    "nullpath" => (rootfd, null),
                    _ => (rootfd, good.as_ptr()),
                };
                let (r, wantfd) = match func.as_str() {
                    "resolve" => (pathrs_inroot_resolve(fd, path), true),
                    "resolve_nofollow" => (pathrs_inroot_resolve_nofollow(fd, path), true),
                    "open" => (pathrs_inroot_open(fd, path, libc::O_RDONLY), true),
                    "readlink" => (pathrs_inroot_readlink(fd, path, std::ptr::null_mut(), 0), false),
                    "rename" => (pathrs_inroot_rename(fd, path, if class == "nullpath2" { null } else { good.as_ptr() }, 0), false),
                    "rmdir" => (pathrs_inroot_rmdir(fd, path), false),
                    "unlink" => (pathrs_inroot_unlink(fd, path), false),
                    "remove_all" => (pathrs_inroot_remove_all(fd, path), false),
                    "creat" => (pathrs_inroot_creat(fd, path, libc::O_RDONLY, 0o644), true),
                    "mkdir" => (pathrs_inroot_mkdir(fd, path, 0o755), false),
                    "mkdir_all" => (
                        pathrs_inroot_mkdir_all(fd, path, if class == "badmode" { 0o10755 } else { 0o755 }),
                        true,
                    ),
                    "mknod" => (
                        pathrs_inroot_mknod(
                            fd,
                            path,
                            if class == "badmode" {
                                0o170000 | 0o644
                            } else if class == "sock" {
                                libc::S_IFSOCK | 0o644
                            } else {
                                libc::S_IFREG | 0o644
                            },
                            0,
                        ),
                        false,
                    ),
                    "symlink" => (pathrs_inroot_symlink(fd, path, if class == "nullpath2" { null } else { good.as_ptr() }), false),
                    "hardlink" => (pathrs_inroot_hardlink(fd, path, if class == "nullpath2" { null } else { good.as_ptr() }), false),
                    "reopen" => (pathrs_reopen(fd, libc::O_RDONLY), true),
                    "open_root" => (pathrs_open_root(path), true),
                    "proc_open" => (
                        pathrs_proc_open(if class == "badbase" { 0x1234 } else { PATHRS_PROC_SELF }, path, libc::O_RDONLY),
                        true,
                    ),
                    "proc_readlink" => (
                        pathrs_proc_readlink(
                            if class == "badbase" { 0x1234 } else { PATHRS_PROC_SELF },
                            path,
                            std::ptr::null_mut(),
                            0,
                        ),
                        false,
                    ),
                    _ => (0, false),
                };
                c_ret(r, wantfd, keep)
            }
            _ => Outcome::Harness(-1),
        }
    }
}

/// A job for one caller thread.
pub struct Job {
    pub ops: Vec<OpSpec>,
}

pub const MAXT: usize = 4;
pub static JOBS: Shared<Vec<Option<Job>>> = Shared::new(Vec::new());
pub static RESULTS: Shared<Vec<Vec<Outcome>>> = Shared::new(Vec::new());
pub static PANIC_MSG: Shared<Vec<String>> = Shared::new(Vec::new());

thread_local! {
    pub static WORKER_IDX: std::cell::Cell<usize> = const { std::cell::Cell::new(usize::MAX) };
}

/// Body of a caller thread.
pub fn worker_main(idx: usize) {
    WORKER_IDX.with(|w| w.set(idx));
    loop {
        let r = seam::hypercall(seam::HC_NEXT_JOB, idx as u64, 0);
        if r != 0 {
            return;
        }
        let job = match JOBS.get()[idx].take() {
            Some(j) => j,
            None => continue,
        };
        for (k, spec) in job.ops.iter().enumerate() {
            seam::hypercall(seam::HC_BEGIN_OP, idx as u64, k as u64);
            let out = match std::panic::catch_unwind(std::panic::AssertUnwindSafe(|| exec(spec))) {
                Ok(o) => o,
                Err(p) => {
                    let msg = if let Some(s) = p.downcast_ref::<&str>() {
                        s.to_string()
                    } else if let Some(s) = p.downcast_ref::<String>() {
                        s.clone()
                    } else {
                        "panic".to_string()
                    };
                    let loc = std::mem::take(&mut PANIC_MSG.get()[idx]);
                    Outcome::Panic(format!("{msg} @ {loc}"))
                }
            };
            RESULTS.get()[idx].push(out);
            seam::hypercall(seam::HC_END_OP, idx as u64, k as u64);
        }
        drop(job);
        seam::hypercall(seam::HC_JOB_DONE, idx as u64, 0);
    }
}

pub fn install_panic_hook() {
    std::panic::set_hook(Box::new(|info| {
        let idx = WORKER_IDX.with(|w| w.get());
        let loc = info.location().map(|l| format!("{}:{}", l.file(), l.line())).unwrap_or_default();
        if idx < MAXT {
            PANIC_MSG.get()[idx] = loc;
        } else {
            eprintln!("harness panic (non-worker thread): {info}");
        }
    }));
}
