//! The supervisor: owns the seccomp listener, the task table, the scheduler,
//! the simulated futex and entropy, the fault injector and the attacker, and
//! records the event trace every oracle is evaluated on.
#![allow(dead_code)]

use crate::ops::{self, Job, Op, OpSpec, Outcome};
use crate::rng::Rng;
use crate::seam::{self, Notif};
use crate::sys;
use crate::world::{Ino, Mutation, World, WorldSpec, Zone};
use serde_json::{json, Value};
use std::collections::BTreeMap;
use std::sync::atomic::{AtomicI32, Ordering};

pub const HARNESS_FD_MIN: i32 = 200;
pub const NOFILE: u64 = 256;
// a legitimate walk: 128 link traversals x (a body with two or three `..`, each checked through
// procfs: ~160 trapped calls) is ~60 000 calls on the emulated backend
pub const STEP_BUDGET_PER_OP: usize = 200_000;

// ------------------------------------------------------------ configuration

#[derive(Clone, Copy, Debug, PartialEq, Eq)]
pub enum MountApi {
    Ok,
    Enosys,
    Eperm,
    /// fsopen/fsconfig/fsmount refused (EPERM), open_tree still available
    NoFsopen,
}

#[derive(Clone, Debug, PartialEq)]
pub struct UniCfg {
    /// E universe: every openat2 is answered ENOSYS from the first call on
    pub no_openat2: bool,
    /// with `no_openat2`: the refusal is EPERM, not ENOSYS (seccomp profiles that answer unknown
    /// system calls with EPERM - older container runtimes)
    pub openat2_eperm: bool,
    /// every renameat2 is answered ENOSYS (kernel before 3.15, seccomp profiles that do not know it)
    pub no_renameat2: bool,
    pub mount_api: MountApi,
    /// false: statx never reports a mount id
    pub statx_mntid: bool,
    /// statx does not know STATX_MNT_ID_UNIQUE (Linux 5.8 - 6.7): the bit is ignored in the request
    /// and only the old, reusable mount id comes back
    pub statx_no_unique: bool,
    /// options to remount the namespace's /proc with ("" = leave alone)
    pub proc_opts: String,
    /// drop to uid 65534 without capabilities after set-up
    pub unpriv: bool,
    /// substitute the text of fs.protected_symlinks read through procfs
    pub psym: Option<u32>,
    pub workers: usize,
}

impl Default for UniCfg {
    fn default() -> Self {
        UniCfg { no_openat2: false, openat2_eperm: false, no_renameat2: false, mount_api: MountApi::Ok, statx_mntid: true, statx_no_unique: false, proc_opts: String::new(), unpriv: false, psym: None, workers: 1 }
    }
}

impl UniCfg {
    pub fn k() -> UniCfg {
        UniCfg::default()
    }
    pub fn e() -> UniCfg {
        UniCfg { no_openat2: true, ..Default::default() }
    }
    pub fn workers(mut self, n: usize) -> UniCfg {
        self.workers = n;
        self
    }
    pub fn tag(&self) -> String {
        format!(
            "{}{}{}{}{}{}",
            if self.no_openat2 && self.openat2_eperm { "P" } else if self.no_openat2 { "E" } else { "K" },
            match self.mount_api {
                MountApi::Ok => "",
                MountApi::Enosys => "+nomountapi",
                MountApi::Eperm => "+mountapi-eperm",
                MountApi::NoFsopen => "+nofsopen",
            },
            if !self.statx_mntid { "+nomntid" } else if self.statx_no_unique { "+oldmntid" } else { "" },
            if self.proc_opts.is_empty() { String::new() } else { format!("+proc[{}]", self.proc_opts) },
            if self.unpriv { "+unpriv" } else { "" },
            match (self.psym, self.no_renameat2) {
                (Some(v), r) => format!("+psym{v}{}", if r { "+norenameat2" } else { "" }),
                (None, true) => "+norenameat2".to_string(),
                (None, false) => String::new(),
            }
        )
    }
    pub fn to_json(&self) -> Value {
        json!({
            "openat2": !self.no_openat2,
            "openat2_refusal": if self.openat2_eperm { "EPERM" } else { "ENOSYS" },
            "renameat2": !self.no_renameat2,
            "mount_api": match self.mount_api { MountApi::Ok => "ok", MountApi::Enosys => "enosys", MountApi::Eperm => "eperm", MountApi::NoFsopen => "nofsopen" },
            "statx_mnt_id": self.statx_mntid,
            "statx_mnt_id_unique": !self.statx_no_unique,
            "proc": self.proc_opts,
            "unpriv": self.unpriv,
            "protected_symlinks": self.psym,
            "workers": self.workers,
        })
    }
    pub fn from_json(v: &Value) -> UniCfg {
        UniCfg {
            no_openat2: !v["openat2"].as_bool().unwrap_or(true),
            openat2_eperm: v["openat2_refusal"].as_str() == Some("EPERM"),
            no_renameat2: !v["renameat2"].as_bool().unwrap_or(true),
            mount_api: match v["mount_api"].as_str() {
                Some("enosys") => MountApi::Enosys,
                Some("eperm") => MountApi::Eperm,
                Some("nofsopen") => MountApi::NoFsopen,
                _ => MountApi::Ok,
            },
            statx_mntid: v["statx_mnt_id"].as_bool().unwrap_or(true),
            statx_no_unique: !v["statx_mnt_id_unique"].as_bool().unwrap_or(true),
            proc_opts: v["proc"].as_str().unwrap_or("").to_string(),
            unpriv: v["unpriv"].as_bool().unwrap_or(false),
            psym: v["protected_symlinks"].as_u64().map(|x| x as u32),
            workers: v["workers"].as_u64().unwrap_or(1) as usize,
        }
    }
}

#[derive(Clone, Debug, PartialEq)]
pub enum Fault {
    Errno(i32),
    /// read/getdents: deliver at most 1 byte / fail
    ShortRead,
    /// close: executed, then this errno is reported
    CloseErr(i32),
    /// statx succeeds but reports no mount id
    StatxNoMntId,
}

#[derive(Clone, Debug, Default, PartialEq)]
pub struct Dec {
    pub step: usize,
    pub switch_to: Option<usize>,
    pub attack: Vec<Mutation>,
    pub fault: Option<Fault>,
}

impl Dec {
    pub fn to_json(&self) -> Value {
        let mut o = serde_json::Map::new();
        o.insert("step".into(), json!(self.step));
        if let Some(t) = self.switch_to {
            o.insert("switch_to".into(), json!(t));
        }
        if !self.attack.is_empty() {
            o.insert("attacker".into(), Value::Array(self.attack.iter().map(|m| m.to_json()).collect()));
        }
        if let Some(f) = &self.fault {
            o.insert(
                "fault".into(),
                match f {
                    Fault::Errno(e) => json!(["errno", sys::errname(*e)]),
                    Fault::ShortRead => json!(["short_read"]),
                    Fault::CloseErr(e) => json!(["close_err", sys::errname(*e)]),
                    Fault::StatxNoMntId => json!(["statx_no_mnt_id"]),
                },
            );
        }
        Value::Object(o)
    }
    pub fn from_json(v: &Value) -> Dec {
        let fault = v.get("fault").and_then(|f| {
            let a = f.as_array()?;
            let e = a.get(1).and_then(|x| x.as_str()).and_then(sys::errnum).unwrap_or(libc::EIO);
            Some(match a.first()?.as_str()? {
                "errno" => Fault::Errno(e),
                "short_read" => Fault::ShortRead,
                "close_err" => Fault::CloseErr(e),
                _ => Fault::StatxNoMntId,
            })
        });
        Dec {
            step: v["step"].as_u64().unwrap_or(0) as usize,
            switch_to: v.get("switch_to").and_then(|x| x.as_u64()).map(|x| x as usize),
            attack: v
                .get("attacker")
                .and_then(|a| a.as_array())
                .map(|a| a.iter().filter_map(Mutation::from_json).collect())
                .unwrap_or_default(),
            fault,
        }
    }
}

#[derive(Clone, Debug, Default, PartialEq)]
pub struct Seeded {
    pub seed: u64,
    /// per-step probabilities in 1/1000
    pub p_switch: u64,
    pub p_attack: u64,
    pub p_fault: u64,
    pub max_attacks: usize,
    /// PCT-style: number of priority change points (0 = uniform random switching)
    pub pct_depth: usize,
}

#[derive(Clone, Debug, Default, PartialEq)]
pub struct Plan {
    pub seeded: Option<Seeded>,
    pub script: Vec<Dec>,
    /// from this step on every descriptor-creating call fails with errno
    pub sticky: Option<(usize, i32)>,
    /// (index of the openat2 call within the run, number of consecutive EAGAINs)
    pub eagain: Option<(usize, usize)>,
    /// all threads receive identical getrandom bytes
    pub dup_entropy: bool,
    /// every 32-byte getrandom request (a generator seed) is answered with
    /// exactly these bytes (hex): adversarial entropy chosen by the harness
    pub seed_entropy: Option<String>,
    /// descriptor capacity: a descriptor-creating call of the library fails with EMFILE whenever
    /// this many descriptors (below the harness's own) are open already - RLIMIT_NOFILE as a fault
    /// that comes and goes with the depth of the library's own recursion
    pub fd_cap: Option<usize>,
    /// every readlink of a descriptor's path (/proc/<pid>/fd/<n>) whose object currently lives in
    /// the world but outside the root fails with ENAMETOOLONG: "whatever the attacker moves out of
    /// the root ends up nested deeper than PATH_MAX" (the kernel renders such paths into one page)
    pub outside_too_long: bool,
    /// restricts `sticky` (errnos other than EMFILE/ENFILE) to one system call number: the
    /// directory that cannot be listed any more, the one kernel path that is out of memory
    pub sticky_nr: Option<i64>,
}

impl Plan {
    pub fn to_json(&self) -> Value {
        json!({
            "seeded": self.seeded.as_ref().map(|s| json!({"seed": s.seed, "p_switch": s.p_switch, "p_attack": s.p_attack,
                 "p_fault": s.p_fault, "max_attacks": s.max_attacks, "pct_depth": s.pct_depth})),
            "decisions": self.script.iter().map(|d| d.to_json()).collect::<Vec<_>>(),
            "sticky": self.sticky.map(|(s, e)| json!([s, sys::errname(e)])),
            "eagain": self.eagain.map(|(i, k)| json!([i, k])),
            "dup_entropy": self.dup_entropy,
            "seed_entropy": self.seed_entropy,
            "fd_cap": self.fd_cap,
            "outside_too_long": self.outside_too_long,
            "sticky_nr": self.sticky_nr,
        })
    }
    pub fn from_json(v: &Value) -> Plan {
        Plan {
            seeded: v.get("seeded").filter(|s| !s.is_null()).map(|s| Seeded {
                seed: s["seed"].as_u64().unwrap_or(0),
                p_switch: s["p_switch"].as_u64().unwrap_or(0),
                p_attack: s["p_attack"].as_u64().unwrap_or(0),
                p_fault: s["p_fault"].as_u64().unwrap_or(0),
                max_attacks: s["max_attacks"].as_u64().unwrap_or(0) as usize,
                pct_depth: s["pct_depth"].as_u64().unwrap_or(0) as usize,
            }),
            script: v.get("decisions").and_then(|a| a.as_array()).map(|a| a.iter().map(Dec::from_json).collect()).unwrap_or_default(),
            sticky: v.get("sticky").and_then(|s| s.as_array()).map(|a| {
                (a[0].as_u64().unwrap_or(0) as usize, a[1].as_str().and_then(sys::errnum).unwrap_or(libc::EMFILE))
            }),
            eagain: v.get("eagain").and_then(|s| s.as_array()).map(|a| (a[0].as_u64().unwrap_or(0) as usize, a[1].as_u64().unwrap_or(0) as usize)),
            dup_entropy: v.get("dup_entropy").and_then(|x| x.as_bool()).unwrap_or(false),
            seed_entropy: v.get("seed_entropy").and_then(|x| x.as_str()).map(|s| s.to_string()),
            fd_cap: v.get("fd_cap").and_then(|x| x.as_u64()).map(|x| x as usize),
            outside_too_long: v.get("outside_too_long").and_then(|x| x.as_bool()).unwrap_or(false),
            sticky_nr: v.get("sticky_nr").and_then(|x| x.as_i64()),
        }
    }
}

// ------------------------------------------------------------------- trace

#[derive(Clone, Debug, PartialEq)]
pub enum Prov {
    /// an inode of the world, with its zone and creation name
    Tree(Zone, String),
    /// unlabelled inode on the world's tmpfs
    TreeUnknown,
    Procfs,
    Cwd,
    Other,
    Bad,
}

#[derive(Clone, Debug)]
pub struct FdInfo {
    pub fd: i32,
    pub ino: Ino,
    pub ftype: u32,
    pub prov: Prov,
    pub mnt_id: u64,
}

#[derive(Clone, Debug, PartialEq)]
pub enum Answer {
    Continue,
    Fail(i32),
    Value(i64),
    Block,
}

#[derive(Clone, Debug)]
pub struct Ev {
    pub step: usize,
    pub thread: usize,
    pub op: Option<usize>,
    /// inside a libpathrs call (not a harness action)
    pub lib: bool,
    pub nr: i64,
    pub args: [u64; 6],
    pub path: Option<Vec<u8>>,
    pub path2: Option<Vec<u8>>,
    pub dir: Option<FdInfo>,
    pub dir2: Option<FdInfo>,
    /// openat2: (flags, resolve); openat: (flags, 0)
    pub oflags: Option<(u64, u64)>,
    pub answer: Answer,
    pub attacks: usize,
    /// fault injected (as opposed to a persistent configuration refusal)
    pub injected: bool,
    /// refused because the universe's configuration says this kernel feature does not exist
    pub config_refusal: bool,
}

impl Ev {
    /// Was the call executed by the kernel (by the caller itself, or by the
    /// supervisor on its behalf), as opposed to refused or faked?
    pub fn executed(&self) -> bool {
        match self.answer {
            Answer::Continue => true,
            Answer::Value(_) | Answer::Fail(_) => self.nr == libc::SYS_openat2 && !self.injected && !self.config_refusal,
            Answer::Block => false,
        }
    }
    pub fn name(&self) -> &'static str {
        seam::sysname(self.nr)
    }
    pub fn render(&self, tids: &[i32], pid: i32) -> String {
        let norm = |b: &Vec<u8>| normalise_path(&String::from_utf8_lossy(b), tids, pid);
        let d = |f: &Option<FdInfo>| match f {
            None => "-".to_string(),
            Some(i) => match &i.prov {
                Prov::Tree(z, n) => format!("{}:{n}", if *z == Zone::Inside { "in" } else { "OUT" }),
                Prov::TreeUnknown => "tree?".into(),
                Prov::Procfs => "procfs".into(),
                Prov::Cwd => "CWD".into(),
                Prov::Other => "other".into(),
                Prov::Bad => "bad".into(),
            },
        };
        let mut s = format!("{:4} T{} {}", self.step, self.thread, self.name());
        if self.nr == seam::HYPERCALL_NR {
            s.push_str(&format!("({},{},{})", self.args[0], self.args[1], self.args[2]));
        } else {
            s.push_str(&format!("(dir={}", d(&self.dir)));
            if let Some(p) = &self.path {
                s.push_str(&format!(", {:?}", norm(p)));
            }
            if self.dir2.is_some() || self.path2.is_some() {
                s.push_str(&format!(", dir2={}", d(&self.dir2)));
                if let Some(p) = &self.path2 {
                    s.push_str(&format!(", {:?}", norm(p)));
                }
            }
            if let Some((f, r)) = self.oflags {
                s.push_str(&format!(", flags={f:#o}, resolve={r:#x}"));
            }
            s.push(')');
        }
        match &self.answer {
            Answer::Continue => {}
            Answer::Fail(e) => s.push_str(&format!(" => FAIL {}{}", sys::errname(*e), if self.injected { " [injected]" } else { "" })),
            Answer::Value(v) => s.push_str(&format!(" => VALUE {v}")),
            Answer::Block => s.push_str(" => BLOCK"),
        }
        if self.attacks > 0 {
            s.push_str(&format!(" [after {} attacker op(s)]", self.attacks));
        }
        s
    }
}

pub fn normalise_path(p: &str, tids: &[i32], pid: i32) -> String {
    let mut out = Vec::new();
    for c in p.split('/') {
        if let Ok(n) = c.parse::<i32>() {
            if n == pid && n > 300 {
                out.push("PID".to_string());
                continue;
            }
            if let Some(i) = tids.iter().position(|t| *t == n) {
                if n > 300 {
                    out.push(format!("TID{i}"));
                    continue;
                }
            }
        }
        out.push(c.to_string());
    }
    out.join("/")
}

#[derive(Clone, Debug)]
pub struct FdFacts {
    pub fd: i32,
    pub ino: Ino,
    pub ftype: u32,
    pub mode: u32,
    pub zone: Option<Zone>,
    pub label: Option<String>,
    pub getfl: i32,
    pub getfd: i32,
    pub fstype: i64,
    pub mnt_id: u64,
    pub path: String,
}

pub type FdTable = Vec<(i32, u64, u64, i32, i32)>;

#[derive(Clone, Debug)]
pub struct OpRecord {
    pub thread: usize,
    pub idx: usize,
    pub spec: OpSpec,
    pub outcome: Outcome,
    pub facts: Option<FdFacts>,
    pub begin_step: usize,
    pub end_step: usize,
    pub fds_before: FdTable,
    pub fds_after: FdTable,
    /// number of attacker mutations / faults that landed strictly inside the op
    pub attacks_inside: usize,
    pub faults_inside: usize,
}

#[derive(Clone, Debug)]
pub struct Finding {
    pub clause: String,
    pub detail: String,
    pub step: usize,
}

#[derive(Default)]
pub struct RunOut {
    pub records: Vec<OpRecord>,
    pub trace: Vec<Ev>,
    pub decisions: Vec<Dec>,
    pub findings: Vec<Finding>,
    pub steps: usize,
    pub attacks_applied: BTreeMap<String, u64>,
    pub attacks_failed: u64,
    pub faults_fired: BTreeMap<String, u64>,
    pub probes: BTreeMap<String, u64>,
    pub harness_error: Option<String>,
    pub deadlock: bool,
    pub hang: bool,
    pub budget_exceeded: bool,
    pub interleaving_hash: u64,
    pub trace_hash: u64,
    pub new_persistent_fds: FdTable,
    pub leaked_fds: FdTable,
    pub tids: Vec<i32>,
    pub switches: usize,
}

impl RunOut {
    pub fn find(&mut self, clause: &str, detail: String, step: usize) {
        self.findings.push(Finding { clause: clause.to_string(), detail, step });
    }
    pub fn probe(&mut self, name: &str) {
        *self.probes.entry(name.to_string()).or_insert(0) += 1;
    }
    pub fn render_trace(&self) -> Vec<String> {
        let pid = unsafe { libc::getpid() };
        self.trace.iter().map(|e| e.render(&self.tids, pid)).collect()
    }
}

pub trait Hooks {
    fn begin_op(&mut self, _ctx: &mut RunCtx, _t: usize, _k: usize, _spec: &OpSpec) {}
    fn end_op(&mut self, _ctx: &mut RunCtx, _rec: &mut OpRecord) {}
    /// seeded attacker: produce mutations for this window
    fn attack(&mut self, _rng: &mut Rng, _world: &World, _ev: &Ev) -> Vec<Mutation> {
        Vec::new()
    }
    /// seeded fault choice for the call about to proceed
    fn fault(&mut self, rng: &mut Rng, ev: &Ev) -> Option<Fault> {
        let cat = fault_catalogue(ev.nr);
        if cat.is_empty() {
            None
        } else {
            Some(rng.pick(&cat).clone())
        }
    }
}

pub struct NoHooks;
impl Hooks for NoHooks {}

pub struct RunCtx<'a> {
    pub world: &'a mut World,
    pub out: &'a mut RunOut,
    pub step: usize,
}

pub struct RunInput<'a> {
    pub world: Option<&'a WorldSpec>,
    pub root_path: String,
    pub jobs: Vec<Vec<OpSpec>>,
    pub plan: Plan,
    pub keep_trace: bool,
    /// take outside snapshots around attacker mutations and ops (C03 chain)
    pub outside_chain: bool,
    /// warm the library's process-wide lazies before measuring
    pub umask: u32,
}

impl<'a> RunInput<'a> {
    pub fn new(world: Option<&'a WorldSpec>, jobs: Vec<Vec<OpSpec>>, plan: Plan) -> Self {
        RunInput { world, root_path: crate::world::ROOT.to_string(), jobs, plan, keep_trace: true, outside_chain: false, umask: 0o022 }
    }
}

// ------------------------------------------------------------------ faults

pub fn is_fd_creating(nr: i64, args: &[u64; 6]) -> bool {
    match nr {
        libc::SYS_openat | libc::SYS_openat2 | libc::SYS_open | libc::SYS_fsopen | libc::SYS_fsmount | libc::SYS_open_tree | libc::SYS_dup | libc::SYS_creat => true,
        libc::SYS_fcntl => args[1] as i32 == libc::F_DUPFD_CLOEXEC || args[1] as i32 == libc::F_DUPFD,
        _ => false,
    }
}

/// The fault catalogue, keyed by what the call does. Errnos that describe
/// the state of the tree (ENOENT, EEXIST, ENOTDIR, ...) are deliberately
/// absent: injecting them would make the kernel lie about the filesystem.
pub fn fault_catalogue(nr: i64) -> Vec<Fault> {
    use Fault::*;
    match nr {
        libc::SYS_openat | libc::SYS_open => {
            vec![Errno(libc::EMFILE), Errno(libc::ENFILE), Errno(libc::ENOMEM), Errno(libc::EACCES), Errno(libc::EINTR), Errno(libc::EIO)]
        }
        libc::SYS_openat2 => vec![
            Errno(libc::EMFILE),
            Errno(libc::ENFILE),
            Errno(libc::ENOMEM),
            Errno(libc::EACCES),
            Errno(libc::EINTR),
            Errno(libc::ENOSYS),
            Errno(libc::EAGAIN),
        ],
        libc::SYS_fcntl => vec![Errno(libc::EMFILE), Errno(libc::ENOMEM)],
        libc::SYS_fsopen | libc::SYS_fsmount | libc::SYS_open_tree | libc::SYS_fsconfig => {
            vec![Errno(libc::EMFILE), Errno(libc::ENOMEM), Errno(libc::EPERM), Errno(libc::ENOSYS)]
        }
        libc::SYS_newfstatat | libc::SYS_fstat | libc::SYS_fstatfs | libc::SYS_faccessat | libc::SYS_faccessat2 => {
            vec![Errno(libc::ENOMEM), Errno(libc::EACCES), Errno(libc::EIO)]
        }
        libc::SYS_statx => vec![Errno(libc::ENOMEM), Errno(libc::EACCES), Errno(libc::EIO), Errno(libc::EINVAL), Errno(libc::ENOSYS), StatxNoMntId],
        // (ENAMETOOLONG: what readlink of /proc/<pid>/fd/<n> answers when the object's path does not fit a page)
        libc::SYS_readlinkat | libc::SYS_readlink => vec![Errno(libc::ENOMEM), Errno(libc::EIO), Errno(libc::EACCES), Errno(libc::ENAMETOOLONG)],
        // (renameat2 is the one call of this group that old kernels / seccomp profiles lack, and that
        // filesystems refuse per flag)
        libc::SYS_renameat2 => vec![
            Errno(libc::ENOSPC),
            Errno(libc::EDQUOT),
            Errno(libc::EROFS),
            Errno(libc::EIO),
            Errno(libc::EACCES),
            Errno(libc::EPERM),
            Errno(libc::EINTR),
            Errno(libc::ENOSYS),
            Errno(libc::EINVAL),
        ],
        libc::SYS_mkdirat | libc::SYS_mknodat | libc::SYS_unlinkat | libc::SYS_symlinkat | libc::SYS_linkat | libc::SYS_renameat => vec![
            Errno(libc::ENOSPC),
            Errno(libc::EDQUOT),
            Errno(libc::EROFS),
            Errno(libc::EIO),
            Errno(libc::EACCES),
            Errno(libc::EPERM),
            Errno(libc::EINTR),
        ],
        libc::SYS_read | libc::SYS_getdents64 => vec![Errno(libc::EIO), Errno(libc::EINTR), ShortRead],
        libc::SYS_close => vec![CloseErr(libc::EINTR), CloseErr(libc::EIO)],
        _ => vec![],
    }
}

pub fn fault_name(nr: i64, f: &Fault) -> String {
    let n = seam::sysname(nr);
    match f {
        Fault::Errno(e) => format!("{n}:{}", sys::errname(*e)),
        Fault::ShortRead => format!("{n}:short"),
        Fault::CloseErr(e) => format!("{n}:after-close-{}", sys::errname(*e)),
        Fault::StatxNoMntId => format!("{n}:no-mnt-id"),
    }
}

// ------------------------------------------------------------ the universe

#[derive(Clone, Debug, PartialEq)]
enum WState {
    /// parked in NEXT_JOB with no job
    Idle,
    /// parked at a trapped call that has not been handled yet
    Ready,
    /// futex wait satisfied: answer 0 when picked
    Woken,
    /// blocked in a simulated futex wait
    Futex(u64),
    Running,
}

struct Worker {
    tid: i32,
    state: WState,
    notif: Option<Notif>,
    cur_op: Option<usize>,
    has_job: bool,
    /// (parent dirfd, name, parent zone): label the object just created
    pending_create: Option<(i32, Vec<u8>, Zone)>,
    op_steps: usize,
    priority: u64,
    /// inside a harness set-up section of an operation
    harness_section: bool,
    /// the caller thread currently runs with credentials other than the supervisor's
    alt_creds: bool,
    /// the caller thread has unshared its descriptor table: nothing can be executed on its behalf
    private_table: bool,
}

pub struct Universe {
    pub cfg: UniCfg,
    listener: i32,
    workers: Vec<Worker>,
    launcher_notif: Option<Notif>,
    pub pid: i32,
    pub errfd: i32,
    /// private, pristine procfs owned by the harness (opened before any mount games)
    pub pristine_proc: i32,
    baseline_fds: FdTable,
    pub runs: u64,
    /// the universe can no longer be trusted for further runs
    pub poisoned: bool,
    cpu_at_release: u64,
    planted: Vec<i32>,
}

static LISTENER: AtomicI32 = AtomicI32::new(-1);

pub fn diag(msg: &str) {
    let s = format!("{msg}\n");
    unsafe { libc::write(201, s.as_ptr() as *const libc::c_void, s.len()) };
}

pub fn fd_table() -> FdTable {
    let mut v = Vec::new();
    for fd in 0..HARNESS_FD_MIN {
        let g = sys::fcntl_getfd(fd);
        if g < 0 {
            continue;
        }
        let (dev, ino) = match sys::fstat(fd) {
            Ok(st) => (st.st_dev, st.st_ino),
            Err(_) => (0, 0),
        };
        v.push((fd, dev, ino, g, sys::fcntl_getfl(fd)));
    }
    v
}

impl Universe {
    /// Turn the current (single-threaded) process into a universe.
    pub fn boot(cfg: UniCfg) -> Result<Universe, String> {
        // The supervisor and the caller threads never run at the same time, so
        // the whole universe is pinned to one CPU: every wake-up stays local
        // (cross-CPU wake-ups cost an IPI, i.e. a VM exit, each).
        if let Ok(c) = std::env::var("SIM_CPU") {
            if let Ok(c) = c.parse::<usize>() {
                unsafe {
                    let mut set: libc::cpu_set_t = std::mem::zeroed();
                    libc::CPU_SET(c % 64, &mut set);
                    libc::sched_setaffinity(0, std::mem::size_of::<libc::cpu_set_t>(), &set);
                }
            }
        }
        unsafe {
            // descriptor hygiene: result pipe (stdout) -> 200, stderr -> 201,
            // 0/1/2 become /dev/null
            if libc::fcntl(1, libc::F_DUPFD, 200) != 200 {
                return Err("cannot move stdout to 200".into());
            }
            if libc::fcntl(2, libc::F_DUPFD, 201) != 201 {
                return Err("cannot move stderr to 201".into());
            }
            let null = libc::open(b"/dev/null\0".as_ptr() as *const libc::c_char, libc::O_RDWR);
            for fd in 0..2 {
                libc::dup2(null, fd);
            }
            // fd 2 stays the real stderr: an abort message from the runtime must not be lost
            if null > 2 {
                libc::close(null);
            }
            // close anything else inherited below 200
            for fd in 3..HARNESS_FD_MIN {
                libc::close(fd);
            }
            if libc::unshare(libc::CLONE_NEWNS) != 0 {
                return Err(format!("unshare(CLONE_NEWNS): {}", sys::errname(sys::errno())));
            }
        }
        sys::mount("", b"/", "", libc::MS_REC | libc::MS_SLAVE, "").map_err(|e| format!("make / rslave: {}", sys::errname(e)))?;
        // pristine private procfs for the harness's own oracles
        let pp = sys::fsopen_proc(false).map_err(|e| format!("fsopen proc: {}", sys::errname(e)))?;
        let pristine_proc = sys::dup_above(pp, HARNESS_FD_MIN + 2).map_err(|e| format!("dup: {e}"))?;
        sys::close(pp);
        sys::PRISTINE_PROC.store(pristine_proc, Ordering::SeqCst);
        if cfg.proc_opts == "absent" {
            // a mount namespace without any /proc (chroot, minimal container): the library has its
            // own fsopen-based procfs, only its path rendering for error messages looks at /proc
            let r = unsafe { libc::umount2(b"/proc\0".as_ptr() as *const libc::c_char, libc::MNT_DETACH) };
            if r != 0 {
                return Err(format!("umount /proc: {}", sys::errname(sys::errno())));
            }
        } else if !cfg.proc_opts.is_empty() {
            // a *new* procfs instance with the options under test, mounted on /proc
            sys::mount("proc", b"/proc", "proc", 0, &cfg.proc_opts).map_err(|e| format!("mount /proc {}: {}", cfg.proc_opts, sys::errname(e)))?;
        }
        sys::mount("tmpfs", b"/mnt", "tmpfs", 0, "mode=0755").map_err(|e| format!("mount tmpfs: {}", sys::errname(e)))?;
        if cfg.unpriv {
            // world area must be usable after the drop: nothing to do, the
            // unprivileged universes do not rebuild worlds
            unsafe {
                if libc::setgroups(0, std::ptr::null()) != 0 || libc::setresgid(65534, 65534, 65534) != 0 || libc::setresuid(65534, 65534, 65534) != 0 {
                    return Err("credential drop failed".into());
                }
            }
        }
        sys::setrlimit_nofile(NOFILE);
        ops::install_panic_hook();
        {
            let n = cfg.workers.max(1);
            *ops::JOBS.get() = (0..n).map(|_| None).collect();
            *ops::RESULTS.get() = (0..n).map(|_| Vec::new()).collect();
            *ops::PANIC_MSG.get() = (0..n).map(|_| String::new()).collect();
        }
        let nworkers = cfg.workers.max(1);
        LISTENER.store(-1, Ordering::SeqCst);
        std::thread::Builder::new()
            .name("launcher".into())
            .spawn(move || {
                match seam::install_filter() {
                    Ok(fd) => LISTENER.store(fd, Ordering::SeqCst),
                    Err(e) => {
                        LISTENER.store(-1000 - e, Ordering::SeqCst);
                        return;
                    }
                }
                for i in 0..nworkers {
                    let _ = std::thread::Builder::new().name(format!("caller{i}")).stack_size(1 << 20).spawn(move || ops::worker_main(i));
                }
                seam::hypercall(seam::HC_LAUNCHER_PARK, 0, 0);
            })
            .map_err(|e| format!("spawn launcher: {e}"))?;
        let t0 = sys::now_s();
        let lfd = loop {
            let v = LISTENER.load(Ordering::SeqCst);
            if v >= 0 {
                break v;
            }
            if v <= -1000 {
                return Err(format!("seccomp filter install failed: {}", sys::errname(-1000 - v)));
            }
            if sys::now_s() - t0 > 60.0 {
                return Err("launcher did not start".into());
            }
            std::thread::yield_now();
        };
        let listener = sys::dup_above(lfd, HARNESS_FD_MIN + 3).map_err(|e| format!("dup listener: {e}"))?;
        sys::close(lfd);
        let mut u = Universe {
            cfg,
            listener,
            workers: (0..nworkers)
                .map(|_| Worker { tid: 0, state: WState::Running, notif: None, cur_op: None, has_job: false, pending_create: None, op_steps: 0, priority: 0, harness_section: false, alt_creds: false, private_table: false })
                .collect(),
            launcher_notif: None,
            pid: unsafe { libc::getpid() },
            errfd: 201,
            pristine_proc,
            baseline_fds: Vec::new(),
            runs: 0,
            poisoned: false,
            planted: Vec::new(),
            cpu_at_release: 0,
        };
        // bootstrap: answer everything with "continue" until all workers are
        // parked in NEXT_JOB and the launcher is parked
        let mut idle = 0;
        while idle < nworkers || u.launcher_notif.is_none() {
            let n = match seam::recv(u.listener, 120_000) {
                Ok(Some(n)) => n,
                Ok(None) => return Err("bootstrap: no notification within 120 s".into()),
                Err(e) => return Err(format!("bootstrap recv: {}", sys::errname(e))),
            };
            if n.data.nr as i64 == seam::HYPERCALL_NR {
                match n.data.args[0] {
                    seam::HC_NEXT_JOB => {
                        let i = n.data.args[1] as usize;
                        u.workers[i].tid = n.pid as i32;
                        u.workers[i].notif = Some(n);
                        u.workers[i].state = WState::Idle;
                        idle += 1;
                        continue;
                    }
                    seam::HC_LAUNCHER_PARK => {
                        u.launcher_notif = Some(n);
                        continue;
                    }
                    _ => {}
                }
            }
            seam::cont(u.listener, n.id).map_err(|e| format!("bootstrap send: {e}"))?;
        }
        u.baseline_fds = fd_table();
        Ok(u)
    }

    pub fn worker_tid(&self, i: usize) -> i32 {
        self.workers.get(i).map(|w| w.tid).unwrap_or(0)
    }

    fn widx(&self, tid: i32) -> Option<usize> {
        self.workers.iter().position(|w| w.tid == tid)
    }

    fn fdinfo(&self, world: Option<&World>, fd: i32) -> FdInfo {
        if fd == libc::AT_FDCWD {
            return FdInfo { fd, ino: (0, 0), ftype: 0, prov: Prov::Cwd, mnt_id: 0 };
        }
        let st = match sys::fstat(fd) {
            Ok(s) => s,
            Err(_) => return FdInfo { fd, ino: (0, 0), ftype: 0, prov: Prov::Bad, mnt_id: 0 },
        };
        let ino = (st.st_dev, st.st_ino);
        let ftype = st.st_mode & libc::S_IFMT;
        let prov = if let Some(l) = world.and_then(|w| w.lookup(ino)) {
            Prov::Tree(l.zone, l.name.clone())
        } else if world.map(|w| w.dev == st.st_dev).unwrap_or(false) {
            Prov::TreeUnknown
        } else if sys::fs_type(fd) == Ok(sys::PROC_SUPER_MAGIC) {
            Prov::Procfs
        } else {
            Prov::Other
        };
        let mnt_id = if prov == Prov::Procfs { sys::mnt_id(fd).unwrap_or(0) } else { 0 };
        FdInfo { fd, ino, ftype, prov, mnt_id }
    }

    fn classify(&self, world: Option<&World>, n: &Notif, step: usize, t: usize) -> Ev {
        let nr = n.data.nr as i64;
        let a = n.data.args;
        let mut ev = Ev {
            step,
            thread: t,
            op: self.workers[t].cur_op,
            lib: false,
            nr,
            args: a,
            path: None,
            path2: None,
            dir: None,
            dir2: None,
            oflags: None,
            answer: Answer::Continue,
            attacks: 0,
            injected: false,
            config_refusal: false,
        };
        unsafe {
            match nr {
                libc::SYS_openat => {
                    ev.dir = Some(self.fdinfo(world, a[0] as i32));
                    ev.path = Some(seam::read_cstr(a[1]));
                    ev.oflags = Some((a[2] & 0xffff_ffff, 0));
                }
                libc::SYS_openat2 => {
                    ev.dir = Some(self.fdinfo(world, a[0] as i32));
                    ev.path = Some(seam::read_cstr(a[1]));
                    let how = &*(a[2] as *const sys::OpenHow);
                    ev.oflags = Some((how.flags, how.resolve));
                }
                libc::SYS_open | libc::SYS_creat => {
                    ev.dir = Some(self.fdinfo(world, libc::AT_FDCWD));
                    ev.path = Some(seam::read_cstr(a[0]));
                    ev.oflags = Some((a[1] & 0xffff_ffff, 0));
                }
                libc::SYS_newfstatat | libc::SYS_statx | libc::SYS_readlinkat | libc::SYS_mkdirat | libc::SYS_mknodat | libc::SYS_unlinkat
                | libc::SYS_faccessat | libc::SYS_faccessat2 | libc::SYS_open_tree | libc::SYS_fchownat | libc::SYS_fchmodat | libc::SYS_utimensat => {
                    ev.dir = Some(self.fdinfo(world, a[0] as i32));
                    ev.path = Some(seam::read_cstr(a[1]));
                }
                libc::SYS_symlinkat => {
                    ev.path2 = Some(seam::read_cstr(a[0])); // target (not a lookup)
                    ev.dir = Some(self.fdinfo(world, a[1] as i32));
                    ev.path = Some(seam::read_cstr(a[2]));
                }
                libc::SYS_linkat | libc::SYS_renameat | libc::SYS_renameat2 => {
                    ev.dir = Some(self.fdinfo(world, a[0] as i32));
                    ev.path = Some(seam::read_cstr(a[1]));
                    ev.dir2 = Some(self.fdinfo(world, a[2] as i32));
                    ev.path2 = Some(seam::read_cstr(a[3]));
                }
                libc::SYS_stat | libc::SYS_lstat | libc::SYS_readlink | libc::SYS_access | libc::SYS_chdir | libc::SYS_mkdir | libc::SYS_rmdir
                | libc::SYS_unlink | libc::SYS_truncate | libc::SYS_chmod | libc::SYS_chown | libc::SYS_statfs | libc::SYS_mknod => {
                    ev.dir = Some(self.fdinfo(world, libc::AT_FDCWD));
                    ev.path = Some(seam::read_cstr(a[0]));
                }
                libc::SYS_rename | libc::SYS_link | libc::SYS_symlink => {
                    ev.dir = Some(self.fdinfo(world, libc::AT_FDCWD));
                    ev.path = Some(seam::read_cstr(a[0]));
                    ev.path2 = Some(seam::read_cstr(a[1]));
                }
                libc::SYS_fstat | libc::SYS_fstatfs | libc::SYS_fcntl | libc::SYS_close | libc::SYS_read | libc::SYS_getdents64 | libc::SYS_fchdir
                | libc::SYS_lseek | libc::SYS_fsconfig | libc::SYS_fsmount | libc::SYS_dup | libc::SYS_ftruncate | libc::SYS_fchmod => {
                    ev.dir = Some(self.fdinfo(world, a[0] as i32));
                }
                libc::SYS_fsopen => {
                    ev.path = Some(seam::read_cstr(a[0]));
                }
                _ => {}
            }
        }
        ev
    }

    fn fd_facts(&self, world: Option<&World>, fd: i32) -> Option<FdFacts> {
        let st = sys::fstat(fd).ok()?;
        let ino = (st.st_dev, st.st_ino);
        let l = world.and_then(|w| w.lookup(ino));
        Some(FdFacts {
            fd,
            ino,
            ftype: st.st_mode & libc::S_IFMT,
            mode: st.st_mode & 0o7777,
            zone: l.map(|l| l.zone),
            label: l.map(|l| l.name.clone()),
            getfl: sys::fcntl_getfl(fd),
            getfd: sys::fcntl_getfd(fd),
            fstype: sys::fs_type(fd).unwrap_or(0),
            mnt_id: sys::mnt_id(fd).unwrap_or(0),
            path: String::from_utf8_lossy(&sys::fd_path(fd)).into_owned(),
        })
    }

    /// Execute one run. Deterministic given (universe history, input).
    pub fn run(&mut self, input: RunInput, hooks: &mut dyn Hooks) -> RunOut {
        let mut out = RunOut::default();
        out.tids = self.workers.iter().map(|w| w.tid).collect();
        self.runs += 1;
        let nthreads = input.jobs.len();
        if nthreads > self.workers.len() {
            out.harness_error = Some(format!("run needs {nthreads} threads, universe has {}", self.workers.len()));
            return out;
        }
        // --- world
        let mut world = match input.world {
            Some(spec) => match World::build(spec) {
                Ok(w) => Some(w),
                Err(e) => {
                    out.harness_error = Some(format!("world build: {e}"));
                    return out;
                }
            },
            None => None,
        };
        let old_umask = unsafe { libc::umask(input.umask) };
        let before_run = fd_table();
        if world.is_some() {
            match sys::open(input.root_path.as_bytes(), libc::O_PATH | libc::O_DIRECTORY, 0) {
                Ok(fd) => ops::set_slot(0, fd),
                Err(e) => {
                    out.harness_error = Some(format!("open root: {}", sys::errname(e)));
                    return out;
                }
            }
        }
        let mut rng = Rng::new(input.plan.seeded.as_ref().map(|s| s.seed).unwrap_or(1));
        let mut entropy = rng.fork();
        let mut entropy_dup: Vec<u8> = Vec::new();
        let seeded = input.plan.seeded.clone();
        let mut script: BTreeMap<usize, Dec> = BTreeMap::new();
        for d in &input.plan.script {
            script.insert(d.step, d.clone());
        }
        // --- assign jobs
        for (i, ops_) in input.jobs.iter().enumerate() {
            ops::RESULTS.get()[i].clear();
            if ops_.is_empty() {
                continue;
            }
            ops::JOBS.get()[i] = Some(Job { ops: ops_.clone() });
            let w = &mut self.workers[i];
            w.has_job = true;
            w.state = WState::Woken; // answering NEXT_JOB with 0 starts the job
            w.cur_op = None;
            w.op_steps = 0;
            w.pending_create = None;
            w.priority = rng.next();
        }
        let mut step = 0usize;
        let mut last_thread: Option<usize> = None;
        let mut attacks_total = 0usize;
        let mut openat2_count = 0usize;
        let mut last_outside: Option<Vec<String>> = None;
        let mut op_begin: Vec<Option<(usize, FdTable, usize, usize)>> = vec![None; nthreads];
        let mut ihash: u64 = 0xcbf29ce484222325;
        let mut thash: u64 = 0xcbf29ce484222325;
        let mut pct_points: Vec<usize> = Vec::new();
        if let Some(s) = &seeded {
            for _ in 0..s.pct_depth {
                pct_points.push(rng.below(400) as usize + 1);
            }
        }
        let mut faults_total = 0usize;

        'main: loop {
            // ---- pick a thread
            let runnable: Vec<usize> = (0..nthreads).filter(|&i| self.workers[i].has_job && matches!(self.workers[i].state, WState::Ready | WState::Woken)).collect();
            if runnable.is_empty() {
                if (0..nthreads).any(|i| self.workers[i].has_job) {
                    out.deadlock = true;
                    out.find("deadlock", format!("no runnable thread; states: {:?}", self.workers.iter().map(|w| w.state.clone()).collect::<Vec<_>>()), step);
                    self.poisoned = true;
                    break 'main;
                }
                break 'main;
            }
            let default_pick = match last_thread {
                Some(t) if runnable.contains(&t) => t,
                _ => runnable[0],
            };
            let sdec = script.get(&step).cloned();
            let mut dec = Dec { step, ..Default::default() };
            let mut pick = default_pick;
            if let Some(sd) = &sdec {
                if let Some(t) = sd.switch_to {
                    if runnable.contains(&t) {
                        pick = t;
                    }
                }
            } else if let Some(s) = &seeded {
                if runnable.len() > 1 {
                    if s.pct_depth > 0 {
                        if pct_points.contains(&step) {
                            // demote the currently highest-priority runnable thread
                            if let Some(&hi) = runnable.iter().max_by_key(|&&i| self.workers[i].priority) {
                                self.workers[hi].priority = rng.below(1000);
                            }
                        }
                        pick = *runnable.iter().max_by_key(|&&i| self.workers[i].priority).unwrap();
                    } else if rng.chance(s.p_switch, 1000) {
                        pick = *rng.pick(&runnable);
                    }
                }
            }
            if pick != default_pick {
                dec.switch_to = Some(pick);
                out.switches += 1;
            }
            sys::fnv(&mut ihash, &[pick as u8]);
            last_thread = Some(pick);
            let t = pick;

            // ---- a woken thread just gets its answer
            if self.workers[t].state == WState::Woken {
                let n = self.workers[t].notif.take().unwrap();
                self.workers[t].state = WState::Running;
                if dec.switch_to.is_some() {
                    out.decisions.push(dec);
                }
                step += 1;
                if seam::value(self.listener, n.id, 0).is_err() {
                    out.harness_error = Some("send(value) failed".into());
                    break 'main;
                }
                if !self.wait_next(&mut out, &mut world) {
                    break 'main;
                }
                continue;
            }

            let n = self.workers[t].notif.unwrap();
            let nr = n.data.nr as i64;
            let mut ev = self.classify(world.as_ref(), &n, step, t);
            let in_lib = self.workers[t].cur_op.map(|k| input.jobs[t][k].is_lib_call()).unwrap_or(false) && !self.workers[t].harness_section;
            ev.lib = in_lib;

            // ---- hypercalls
            if nr == seam::HYPERCALL_NR {
                let code = n.data.args[0];
                let k = n.data.args[2] as usize;
                match code {
                    seam::HC_BEGIN_OP => {
                        self.workers[t].cur_op = Some(k);
                        self.workers[t].op_steps = 0;
                        let spec = input.jobs[t][k].clone();
                        if let Op::SetEuid { uid } = &spec.op {
                            self.workers[t].alt_creds = *uid != 0;
                        }
                        if let Op::Sup { muts } = &spec.op {
                            for m in muts {
                                self.apply_mutation(&mut world, m, &mut out, step);
                            }
                            if input.outside_chain {
                                last_outside = world.as_ref().map(|w| w.outside_snapshot());
                            }
                        }
                        if let Some(w) = world.as_mut() {
                            let mut ctx = RunCtx { world: w, out: &mut out, step };
                            hooks.begin_op(&mut ctx, t, k, &spec);
                        }
                        if input.outside_chain && last_outside.is_none() {
                            last_outside = world.as_ref().map(|w| w.outside_snapshot());
                        }
                        op_begin[t] = Some((step, fd_table(), attacks_total, faults_total));
                    }
                    seam::HC_END_OP => {
                        let spec = input.jobs[t][k].clone();
                        let outcome = ops::RESULTS.get()[t].last().cloned().unwrap_or(Outcome::Harness(-99));
                        let (bs, fb, a0, f0) = op_begin[t].take().unwrap_or((step, Vec::new(), attacks_total, faults_total));
                        let fds_after = fd_table();
                        let facts = match &outcome {
                            Outcome::Fd(fd) => self.fd_facts(world.as_ref(), *fd),
                            _ => None,
                        };
                        let mut rec = OpRecord {
                            thread: t,
                            idx: k,
                            spec: spec.clone(),
                            outcome: outcome.clone(),
                            facts,
                            begin_step: bs,
                            end_step: step,
                            fds_before: fb,
                            fds_after,
                            attacks_inside: attacks_total - a0,
                            faults_inside: faults_total - f0,
                        };
                        if input.outside_chain {
                            if let (Some(w), Some(prev)) = (world.as_ref(), last_outside.as_ref()) {
                                let now = w.outside_snapshot();
                                if &now != prev {
                                    let d = diff_snap(prev, &now);
                                    out.find("outside-changed", format!("op {} changed the outside of the root: {d}", spec.name()), step);
                                }
                                last_outside = Some(now);
                            }
                        }
                        if let Some(w) = world.as_mut() {
                            let mut ctx = RunCtx { world: w, out: &mut out, step };
                            hooks.end_op(&mut ctx, &mut rec);
                        } else {
                            // world-less runs (procfs checks) still get the hook
                            let mut dummy = World { labels: BTreeMap::new(), dev: 0, root_ino: (0, 0), created_seq: 0 };
                            let mut ctx = RunCtx { world: &mut dummy, out: &mut out, step };
                            hooks.end_op(&mut ctx, &mut rec);
                        }
                        // returned descriptor: store or close
                        if let Outcome::Fd(fd) = outcome {
                            match spec.store {
                                Some(s) => {
                                    let old = ops::slot(s);
                                    if old >= 0 && old != fd {
                                        sys::close(old);
                                    }
                                    ops::set_slot(s, fd)
                                }
                                None => sys::close(fd),
                            }
                        }
                        out.records.push(rec);
                        self.workers[t].cur_op = None;
                    }
                    seam::HC_JOB_DONE => {
                        self.workers[t].has_job = false;
                        self.workers[t].harness_section = false;
                    }
                    seam::HC_HARNESS => {
                        // (argument 2: "my descriptor table is private from now on", still inside the section)
                        if n.data.args[2] == 2 {
                            self.workers[t].private_table = true;
                        }
                        self.workers[t].harness_section = n.data.args[2] != 0;
                    }
                    seam::HC_PLANT => {
                        let fdn = n.data.args[1] as i32;
                        if n.data.args[2] != 0 {
                            if fdn >= 0 && fdn < HARNESS_FD_MIN && sys::fcntl_getfd(fdn) < 0 {
                                // 1: a foreign file; 2: a directory outside the root
                                let decoy = if n.data.args[2] == 2 { sys::openat(libc::AT_FDCWD, b"/mnt/w/outside/landing", libc::O_RDONLY | libc::O_DIRECTORY, 0) } else { sys::openat(libc::AT_FDCWD, b"/mnt/w/outside/secret", libc::O_RDONLY, 0) };
                                if let Ok(d) = decoy {
                                    if d != fdn {
                                        unsafe { libc::dup3(d, fdn, libc::O_CLOEXEC) };
                                        sys::close(d);
                                    }
                                    self.planted.push(fdn);
                                    out.probe("decoy_planted_in_leader_table");
                                }
                            } else {
                                out.probe("decoy_slot_busy_in_leader_table");
                            }
                        } else if let Some(p) = self.planted.iter().position(|x| *x == fdn) {
                            sys::close(fdn);
                            self.planted.remove(p);
                        }
                    }
                    seam::HC_NEXT_JOB => {
                        // finished worker parks again
                        self.workers[t].state = WState::Idle;
                        step += 1;
                        continue;
                    }
                    _ => {}
                }
                ev.answer = Answer::Value(0);
                self.log_ev(&mut out, &mut thash, &ev, input.keep_trace);
                if dec.switch_to.is_some() {
                    out.decisions.push(dec);
                }
                step += 1;
                self.workers[t].state = WState::Running;
                self.workers[t].notif = None;
                if seam::value(self.listener, n.id, 0).is_err() {
                    out.harness_error = Some("send failed".into());
                    break 'main;
                }
                if !self.wait_next(&mut out, &mut world) {
                    break 'main;
                }
                continue;
            }

            // ---- step budget
            self.workers[t].op_steps += 1;
            if self.workers[t].op_steps > STEP_BUDGET_PER_OP {
                if !out.budget_exceeded {
                    out.budget_exceeded = true;
                    out.find("step-budget", format!("operation exceeded {STEP_BUDGET_PER_OP} trapped calls"), step);
                }
                // starve it so that it unwinds (closes are let through: failing them would
                // only manufacture descriptor leaks)
                if nr == libc::SYS_close {
                    self.workers[t].state = WState::Running;
                    self.workers[t].notif = None;
                    step += 1;
                    let _ = seam::cont(self.listener, n.id);
                    if !self.wait_next(&mut out, &mut world) {
                        break 'main;
                    }
                    continue;
                }
                ev.answer = Answer::Fail(libc::EMFILE);
                self.workers[t].state = WState::Running;
                self.workers[t].notif = None;
                step += 1;
                let _ = seam::fail(self.listener, n.id, libc::EMFILE);
                if !self.wait_next(&mut out, &mut world) {
                    break 'main;
                }
                continue;
            }

            // ---- futex (simulated)
            if nr == libc::SYS_futex {
                let addr = n.data.args[0];
                let op = (n.data.args[1] as i32) & 0x7f;
                let val = n.data.args[2] as u32;
                match op {
                    0 | 9 => {
                        // WAIT / WAIT_BITSET
                        let cur = unsafe { std::ptr::read_volatile(addr as *const u32) };
                        if cur != val {
                            ev.answer = Answer::Fail(libc::EAGAIN);
                        } else {
                            ev.answer = Answer::Block;
                            self.workers[t].state = WState::Futex(addr);
                            self.log_ev(&mut out, &mut thash, &ev, input.keep_trace);
                            if dec.switch_to.is_some() {
                                out.decisions.push(dec);
                            }
                            step += 1;
                            continue 'main;
                        }
                    }
                    1 | 10 => {
                        // WAKE / WAKE_BITSET
                        let mut woken = 0i64;
                        for i in 0..nthreads {
                            if woken >= val as i64 {
                                break;
                            }
                            if self.workers[i].state == WState::Futex(addr) {
                                self.workers[i].state = WState::Woken;
                                woken += 1;
                            }
                        }
                        // also forward, for threads outside the simulation
                        unsafe { libc::syscall(libc::SYS_futex, addr, 1 | 128, val, 0, 0, 0) };
                        ev.answer = Answer::Value(woken);
                    }
                    _ => {
                        ev.answer = Answer::Continue;
                    }
                }
                self.log_ev(&mut out, &mut thash, &ev, input.keep_trace);
                if dec.switch_to.is_some() {
                    out.decisions.push(dec);
                }
                step += 1;
                self.workers[t].state = WState::Running;
                self.workers[t].notif = None;
                let r = match ev.answer {
                    Answer::Fail(e) => seam::fail(self.listener, n.id, e),
                    Answer::Value(v) => seam::value(self.listener, n.id, v),
                    _ => seam::cont(self.listener, n.id),
                };
                if r.is_err() {
                    out.harness_error = Some("send failed".into());
                    break 'main;
                }
                if !self.wait_next(&mut out, &mut world) {
                    break 'main;
                }
                continue;
            }

            // ---- a blocking open (fifo without O_NONBLOCK) would park the caller
            // in the kernel, outside the scheduler: the generators never ask
            // for one; if it happens anyway it is a harness error, not a hang
            if matches!(nr, libc::SYS_openat | libc::SYS_openat2 | libc::SYS_open) {
                if let (Some((fl, _)), Some(d), Some(p)) = (ev.oflags, &ev.dir, &ev.path) {
                    let fl = fl as i32;
                    // (O_DIRECTORY on a fifo fails with ENOTDIR before the fifo's open method runs)
                    if fl & (libc::O_PATH | libc::O_NONBLOCK | libc::O_DIRECTORY) == 0 && !p.contains(&b'/') {
                        if let Ok(st) = sys::fstatat(d.fd, p, libc::AT_SYMLINK_NOFOLLOW) {
                            if st.st_mode & libc::S_IFMT == libc::S_IFIFO {
                                out.harness_error = Some(format!("blocking open of a fifo requested: {}", ev.render(&out.tids, self.pid)));
                                let _ = seam::fail(self.listener, n.id, libc::ENXIO);
                                self.workers[t].state = WState::Running;
                                self.workers[t].notif = None;
                                let _ = self.wait_next(&mut out, &mut world);
                                break 'main;
                            }
                        }
                    }
                }
            }

            // ---- attacker window (before the call executes)
            let mut attack: Vec<Mutation> = Vec::new();
            if let Some(sd) = &sdec {
                attack = sd.attack.clone();
            } else if let (Some(s), Some(w)) = (&seeded, world.as_ref()) {
                if in_lib && s.p_attack > 0 && attacks_total < s.max_attacks && rng.chance(s.p_attack, 1000) {
                    attack = hooks.attack(&mut rng, w, &ev);
                }
            }
            if !attack.is_empty() {
                if input.outside_chain {
                    if let (Some(w), Some(prev)) = (world.as_ref(), last_outside.as_ref()) {
                        let now = w.outside_snapshot();
                        if &now != prev {
                            let d = diff_snap(prev, &now);
                            out.find("outside-changed", format!("library changed the outside of the root before attacker window: {d}"), step);
                        }
                    }
                }
                for m in &attack {
                    if self.apply_mutation(&mut world, m, &mut out, step) {
                        attacks_total += 1;
                        ev.attacks += 1;
                        sys::fnv(&mut ihash, format!("A{step}").as_bytes());
                    }
                }
                if input.outside_chain {
                    last_outside = world.as_ref().map(|w| w.outside_snapshot());
                }
                dec.attack = attack;
                // provenance may have changed: re-classify
                let a = ev.attacks;
                ev = self.classify(world.as_ref(), &n, step, t);
                ev.lib = in_lib;
                ev.attacks = a;
            }

            // ---- decide the answer
            let mut answer = Answer::Continue;
            let mut injected = false;
            // persistent configuration refusals
            if self.cfg.no_openat2 && nr == libc::SYS_openat2 {
                answer = Answer::Fail(if self.cfg.openat2_eperm { libc::EPERM } else { libc::ENOSYS });
            }
            if self.cfg.no_renameat2 && nr == libc::SYS_renameat2 && in_lib {
                answer = Answer::Fail(libc::ENOSYS);
            }
            if matches!(nr, libc::SYS_fsopen | libc::SYS_fsmount | libc::SYS_open_tree | libc::SYS_fsconfig | libc::SYS_move_mount) {
                match self.cfg.mount_api {
                    MountApi::Enosys => answer = Answer::Fail(libc::ENOSYS),
                    MountApi::Eperm => answer = Answer::Fail(libc::EPERM),
                    MountApi::NoFsopen => {
                        if nr != libc::SYS_open_tree {
                            answer = Answer::Fail(libc::EPERM)
                        }
                    }
                    MountApi::Ok => {}
                }
            }
            let config_refusal = answer != Answer::Continue;
            let mut fault: Option<Fault> = None;
            if in_lib && answer == Answer::Continue {
                if nr == libc::SYS_openat2 {
                    if let Some((idx, k)) = input.plan.eagain {
                        if openat2_count >= idx && openat2_count < idx + k {
                            fault = Some(Fault::Errno(libc::EAGAIN));
                        }
                    }
                    openat2_count += 1;
                }
                if let Some((from, e)) = input.plan.sticky {
                    // descriptor exhaustion hits the descriptor-creating calls; any other errno (memory
                    // pressure, a signal storm, an LSM that starts denying) hits every call that can report it
                    let applies = if e == libc::EMFILE || e == libc::ENFILE { is_fd_creating(nr, &n.data.args) } else { nr != libc::SYS_getrandom && input.plan.sticky_nr.map(|x| x == nr).unwrap_or(true) && fault_catalogue(nr).iter().any(|f| matches!(f, Fault::Errno(x) if *x == e)) };
                    if step >= from && applies {
                        fault = Some(Fault::Errno(e));
                    }
                }
                if input.plan.outside_too_long && (nr == libc::SYS_readlinkat || nr == libc::SYS_readlink) {
                    // what does the link being read lead to? (the caller's descriptor table is ours)
                    let target = if nr == libc::SYS_readlinkat {
                        let p = ev.path.clone().unwrap_or_default();
                        if p.is_empty() { sys::readlinkat(n.data.args[0] as i32, b"").ok() } else { None }
                    } else {
                        let p = String::from_utf8_lossy(&ev.path.clone().unwrap_or_default()).into_owned();
                        let tid = self.workers[t].tid;
                        let p = p.replace("/proc/thread-self/", &format!("/proc/self/task/{tid}/"));
                        if p.starts_with("/proc/self/") { sys::readlinkat(libc::AT_FDCWD, p.as_bytes()).ok() } else { None }
                    };
                    if let Some(tg) = target {
                        let top = crate::world::TOP.as_bytes();
                        let inside = [top, b"/root"].concat();
                        let in_world = tg.starts_with(top) && tg.get(top.len()) == Some(&b'/');
                        let in_root = tg == inside || (tg.starts_with(&inside) && tg.get(inside.len()) == Some(&b'/'));
                        if in_world && !in_root {
                            fault = Some(Fault::Errno(libc::ENAMETOOLONG));
                        }
                    }
                }
                if let Some(cap) = input.plan.fd_cap {
                    if is_fd_creating(nr, &n.data.args) && (0..HARNESS_FD_MIN).filter(|fd| sys::fcntl_getfd(*fd) >= 0).count() >= cap {
                        fault = Some(Fault::Errno(libc::EMFILE));
                    }
                }
                if let Some(sd) = &sdec {
                    if sd.fault.is_some() {
                        fault = sd.fault.clone();
                    }
                } else if let Some(s) = &seeded {
                    if s.p_fault > 0 && rng.chance(s.p_fault, 1000) {
                        fault = hooks.fault(&mut rng, &ev);
                    }
                }
            }
            // a plain errno on close(2) would leave the descriptor open and manufacture a leak: never
            // (a placement can land on a close when the fault-free trace it was derived from has drifted)
            if nr == libc::SYS_close && matches!(fault, Some(Fault::Errno(_))) {
                fault = None;
                out.probe("fault_placement_landed_on_close(ignored)");
            }
            let mut after_close_err: Option<i32> = None;
            if let Some(f) = &fault {
                match f {
                    Fault::Errno(e) => {
                        answer = Answer::Fail(*e);
                        injected = true;
                    }
                    Fault::CloseErr(e) => {
                        if nr == libc::SYS_close {
                            after_close_err = Some(*e);
                            injected = true;
                        }
                    }
                    Fault::ShortRead => {
                        if nr == libc::SYS_read && n.data.args[2] > 1 {
                            // execute a 1-byte read on behalf of the caller: the
                            // descriptor table is shared, so this is the same read
                            let r = unsafe { libc::read(n.data.args[0] as i32, n.data.args[1] as *mut libc::c_void, 1) };
                            answer = if r < 0 { Answer::Fail(sys::errno()) } else { Answer::Value(r as i64) };
                            injected = true;
                        } else if nr == libc::SYS_getdents64 {
                            answer = Answer::Fail(libc::EINTR);
                            injected = true;
                        }
                    }
                    Fault::StatxNoMntId => {
                        if nr == libc::SYS_statx {
                            let r = unsafe {
                                libc::syscall(libc::SYS_statx, n.data.args[0], n.data.args[1], n.data.args[2], n.data.args[3] & !0x5000u64, n.data.args[4])
                            };
                            if r == 0 {
                                let stx = n.data.args[4] as *mut libc::statx;
                                unsafe {
                                    (*stx).stx_mask &= !0x5000;
                                    (*stx).stx_mnt_id = 0;
                                }
                                answer = Answer::Value(0);
                            } else {
                                answer = Answer::Fail(sys::errno());
                            }
                            injected = true;
                        }
                    }
                }
                if injected {
                    dec.fault = fault.clone();
                    faults_total += 1;
                    *out.faults_fired.entry(fault_name(nr, f)).or_insert(0) += 1;
                }
            }
            // configuration: statx without mount ids
            if !self.cfg.statx_mntid && nr == libc::SYS_statx && answer == Answer::Continue {
                let r = unsafe { libc::syscall(libc::SYS_statx, n.data.args[0], n.data.args[1], n.data.args[2], n.data.args[3] & !0x5000u64, n.data.args[4]) };
                if r == 0 {
                    let stx = n.data.args[4] as *mut libc::statx;
                    unsafe {
                        (*stx).stx_mask &= !0x5000;
                        (*stx).stx_mnt_id = 0;
                    }
                    answer = Answer::Value(0);
                } else {
                    answer = Answer::Fail(sys::errno());
                }
            }
            // configuration: statx that predates STATX_MNT_ID_UNIQUE
            if self.cfg.statx_no_unique && self.cfg.statx_mntid && nr == libc::SYS_statx && answer == Answer::Continue && n.data.args[3] & 0x4000 != 0 {
                let r = unsafe { libc::syscall(libc::SYS_statx, n.data.args[0], n.data.args[1], n.data.args[2], n.data.args[3] & !0x4000u64, n.data.args[4]) };
                if r == 0 {
                    let stx = n.data.args[4] as *mut libc::statx;
                    unsafe {
                        (*stx).stx_mask &= !0x4000;
                    }
                    answer = Answer::Value(0);
                } else {
                    answer = Answer::Fail(sys::errno());
                }
            }
            // A scoped openat2 lookup through ".." returns EAGAIN whenever any
            // rename or mount happens anywhere on the machine (kernel-global
            // sequence counters): interference from outside the simulation,
            // which would make traces differ between two runs of one seed.
            // For lookups on the world's tree the supervisor therefore
            // executes the call on the caller's behalf (same descriptor table,
            // same address space, same credentials) and retries real EAGAINs;
            // injected EAGAINs are unaffected. Not done for procfs (the call
            // depends on the calling thread: thread-self) or when the caller
            // thread runs with other credentials.
            if nr == libc::SYS_openat2 && answer == Answer::Continue && !self.workers[t].alt_creds && !self.workers[t].private_table {
                let on_tree = matches!(ev.dir.as_ref().map(|d| &d.prov), Some(Prov::Tree(..)) | Some(Prov::TreeUnknown));
                if on_tree {
                    let mut retries = 0u64;
                    loop {
                        let r = unsafe { libc::syscall(libc::SYS_openat2, n.data.args[0], n.data.args[1], n.data.args[2], n.data.args[3]) };
                        if r >= 0 {
                            answer = Answer::Value(r);
                            break;
                        }
                        let e = sys::errno();
                        if e == libc::EAGAIN {
                            retries += 1;
                            continue;
                        }
                        answer = Answer::Fail(e);
                        break;
                    }
                    if retries > 0 {
                        *out.probes.entry("real_openat2_eagain_absorbed_by_supervisor".into()).or_insert(0) += retries;
                    }
                }
            }
            // entropy is simulated
            if nr == libc::SYS_getrandom && answer == Answer::Continue {
                let len = n.data.args[1] as usize;
                let buf = unsafe { std::slice::from_raw_parts_mut(n.data.args[0] as *mut u8, len) };
                let fixed: Option<Vec<u8>> = input.plan.seed_entropy.as_ref().filter(|_| len == 32).map(|h| (0..32).map(|i| u8::from_str_radix(&h[2 * i..2 * i + 2], 16).unwrap_or(0)).collect());
                if let Some(f) = fixed {
                    buf.copy_from_slice(&f);
                } else if input.plan.dup_entropy {
                    while entropy_dup.len() < len {
                        let mut b = [0u8; 64];
                        entropy.fill(&mut b);
                        entropy_dup.extend_from_slice(&b);
                    }
                    buf.copy_from_slice(&entropy_dup[..len]);
                } else {
                    entropy.fill(buf);
                }
                answer = Answer::Value(len as i64);
            }
            // the text of fs.protected_symlinks
            if let Some(v) = self.cfg.psym {
                if nr == libc::SYS_read && answer == Answer::Continue {
                    let p = sys::fd_path(n.data.args[0] as i32);
                    if p.ends_with(b"/sys/fs/protected_symlinks") {
                        let txt = format!("{v}\n");
                        let len = (n.data.args[2] as usize).min(txt.len());
                        // only the first read returns data
                        let off = unsafe { libc::lseek(n.data.args[0] as i32, 0, libc::SEEK_CUR) };
                        if off == 0 {
                            unsafe {
                                std::ptr::copy_nonoverlapping(txt.as_ptr(), n.data.args[1] as *mut u8, len);
                                libc::lseek(n.data.args[0] as i32, len as i64, libc::SEEK_SET);
                            }
                            answer = Answer::Value(len as i64);
                        } else {
                            answer = Answer::Value(0);
                        }
                    }
                }
            }
            // close with a reported error: execute it, then report
            if let Some(e) = after_close_err {
                unsafe { libc::close(n.data.args[0] as i32) };
                answer = Answer::Fail(e);
            }
            ev.answer = answer.clone();
            ev.injected = injected;
            ev.config_refusal = config_refusal;

            // ---- bookkeeping for labels: remember creations
            if answer == Answer::Continue {
                if let Some(w) = world.as_ref() {
                    let creating = match nr {
                        libc::SYS_mkdirat | libc::SYS_mknodat | libc::SYS_symlinkat => true,
                        libc::SYS_openat => n.data.args[2] as i32 & libc::O_CREAT != 0,
                        libc::SYS_linkat | libc::SYS_renameat | libc::SYS_renameat2 => false,
                        _ => false,
                    };
                    if creating {
                        if let (Some(d), Some(p)) = (&ev.dir, &ev.path) {
                            let zone = match &d.prov {
                                Prov::Tree(z, _) => Some(*z),
                                _ => None,
                            };
                            let _ = w;
                            // only an object that does not exist yet can be
                            // "created by the library" (EEXIST creates nothing)
                            let exists = sys::fstatat(d.fd, p, libc::AT_SYMLINK_NOFOLLOW).is_ok();
                            let plain = !p.is_empty() && p != b"." && p != b".." && !p.contains(&b'/');
                            if let (Some(z), false, true) = (zone, exists, plain) {
                                self.workers[t].pending_create = Some((d.fd, p.clone(), z));
                            }
                        }
                    }
                }
            }

            self.log_ev(&mut out, &mut thash, &ev, input.keep_trace);
            if dec.switch_to.is_some() || !dec.attack.is_empty() || dec.fault.is_some() {
                out.decisions.push(dec);
            }
            step += 1;
            self.workers[t].state = WState::Running;
            self.workers[t].notif = None;
            let r = match answer {
                Answer::Fail(e) => seam::fail(self.listener, n.id, e),
                Answer::Value(v) => seam::value(self.listener, n.id, v),
                _ => seam::cont(self.listener, n.id),
            };
            if let Err(e) = r {
                out.harness_error = Some(format!("send failed: {}", sys::errname(e)));
                break 'main;
            }
            if !self.wait_next(&mut out, &mut world) {
                break 'main;
            }
        }

        if out.hang || out.harness_error.is_some() || out.deadlock || out.records.iter().any(|r| matches!(r.outcome, Outcome::Panic(_))) {
            self.poisoned = true;
        }
        out.steps = step;
        out.interleaving_hash = ihash;
        out.trace_hash = thash;
        // ---- teardown
        unsafe { libc::umask(old_umask) };
        for i in 0..ops::NSLOTS {
            let fd = ops::slot(i);
            if fd >= 0 {
                sys::close(fd);
                ops::set_slot(i, -1);
            }
        }
        ops::PROC_HANDLES.get().clear();
        // restore stdio if a run renumbered onto it
        for fd in 0..3 {
            if let Some(b) = self.baseline_fds.iter().find(|e| e.0 == fd) {
                let cur = sys::fstat(fd).map(|s| (s.st_dev, s.st_ino)).unwrap_or((0, 0));
                if cur != (b.1, b.2) {
                    if let Ok(nfd) = sys::open(b"/dev/null", libc::O_RDWR, 0) {
                        // (when the slot itself was free the new descriptor already is `fd`)
                        if nfd != fd {
                            unsafe {
                                libc::dup2(nfd, fd);
                            }
                            sys::close(nfd);
                        }
                    }
                }
            }
        }
        let after = fd_table();
        for e in &after {
            if !before_run.iter().any(|b| b.0 == e.0) {
                // a descriptor that survived the run: either the library's
                // process-lifetime procfs handle (first use) or a leak
                if sys::fs_type(e.0) == Ok(sys::PROC_SUPER_MAGIC) && sys::fstat(e.0).map(|s| s.st_ino == 1).unwrap_or(false) {
                    out.new_persistent_fds.push(*e);
                } else {
                    out.leaked_fds.push(*e);
                    sys::close(e.0);
                }
            }
        }
        out
    }

    fn log_ev(&self, out: &mut RunOut, thash: &mut u64, ev: &Ev, keep: bool) {
        // debugging aid (never set by the registered commands): live trace on stderr
        if std::env::var_os("VERIF_TRACE").is_some() {
            diag(&ev.render(&out.tids, self.pid));
        }
        // hash of the normalised event (no pids, no pointers)
        sys::fnv(thash, &[ev.thread as u8]);
        sys::fnv(thash, &ev.nr.to_le_bytes());
        if let Some(p) = &ev.path {
            let s = normalise_path(&String::from_utf8_lossy(p), &out.tids, self.pid);
            sys::fnv(thash, s.as_bytes());
        }
        if let Some(d) = &ev.dir {
            sys::fnv(thash, format!("{:?}", d.prov).as_bytes());
        }
        sys::fnv(thash, format!("{:?}", ev.answer).as_bytes());
        if keep {
            out.trace.push(ev.clone());
        }
    }

    fn apply_mutation(&mut self, world: &mut Option<World>, m: &Mutation, out: &mut RunOut, _step: usize) -> bool {
        if let Mutation::Dup3Slot { slot, newfd } = m {
            let fd = ops::slot(*slot);
            // never renumber onto a descriptor somebody else owns (the library's
            // process-lifetime procfs handle lives at a low number); 0/1/2 are
            // the universe's own /dev/null and may be replaced
            let busy = *newfd > 2 && sys::fcntl_getfd(*newfd) >= 0;
            if fd >= 0 && fd != *newfd && !busy {
                if sys::dup3(fd, *newfd, libc::O_CLOEXEC).is_ok() {
                    sys::close(fd);
                    ops::set_slot(*slot, *newfd);
                    *out.attacks_applied.entry(m.kind().into()).or_insert(0) += 1;
                    return true;
                }
            }
            out.attacks_failed += 1;
            return false;
        }
        // placeholders in mount targets: @W0 = thread id of caller thread 0, @S1 = descriptor number
        // kept in slot 1 (the magic-link /proc/<pid>/task/<tid>/fd/<n> of a handle the caller holds)
        let expand = |p: &str| p.replace("@W0", &self.workers.first().map(|w| w.tid).unwrap_or(0).to_string()).replace("@S1", &ops::slot(1).to_string());
        let expanded = match m {
            Mutation::MountOn { src, dst, nofollow } if dst.contains('@') => Some(Mutation::MountOn { src: src.clone(), dst: expand(dst), nofollow: *nofollow }),
            Mutation::Umount { path } if path.contains('@') => Some(Mutation::Umount { path: expand(path) }),
            _ => None,
        };
        let kind = m.kind();
        let m = expanded.as_ref().unwrap_or(m);
        let r = match world.as_mut() {
            Some(w) => w.apply(m),
            None => {
                let mut dummy = World { labels: BTreeMap::new(), dev: 0, root_ino: (0, 0), created_seq: 0 };
                dummy.apply(m)
            }
        };
        let _ = kind;
        if std::env::var_os("VERIF_DEBUG_MUT").is_some() {
            eprintln!("apply {:?} => {:?}", m.to_json().to_string(), r);
        }
        match r {
            Ok(true) => {
                *out.attacks_applied.entry(m.kind().into()).or_insert(0) += 1;
                true
            }
            _ => {
                out.attacks_failed += 1;
                false
            }
        }
    }

    /// Wait for the thread that was just released to trap again.
    fn wait_next(&mut self, out: &mut RunOut, world: &mut Option<World>) -> bool {
        let mut polls = 0u32;
        let mut last_cpu: Option<u64> = None;
        loop {
            match seam::recv(self.listener, 10_000) {
                Ok(Some(n)) => {
                    let t = match self.widx(n.pid as i32) {
                        Some(t) => t,
                        None => {
                            // a thread outside the simulation (should not happen)
                            let _ = seam::cont(self.listener, n.id);
                            continue;
                        }
                    };
                    // label what the previous call of this thread created
                    if let Some((dfd, name, zone)) = self.workers[t].pending_create.take() {
                        if let (Some(w), Ok(st)) = (world.as_mut(), sys::fstatat(dfd, &name, libc::AT_SYMLINK_NOFOLLOW)) {
                            w.created_seq += 1;
                            let nm = format!("<lib-created#{}:{}>", w.created_seq, String::from_utf8_lossy(&name));
                            w.label_ino((st.st_dev, st.st_ino), nm, zone, st.st_mode & libc::S_IFMT);
                        }
                    }
                    self.workers[t].notif = Some(n);
                    self.workers[t].state = WState::Ready;
                    return true;
                }
                Ok(None) => {
                    // 10 s without a trap. On a badly overloaded machine the
                    // released thread may simply not have been given the CPU:
                    // it is a hang only if it is blocked in the kernel, or has
                    // really burnt CPU time without trapping.
                    polls += 1;
                    let running: Vec<i32> = self.workers.iter().filter(|w| w.state == WState::Running).map(|w| w.tid).collect();
                    let mut verdict = "blocked";
                    for tid in &running {
                        let pp = sys::PRISTINE_PROC.load(Ordering::Relaxed);
                        let stat = sys::openat(pp, format!("self/task/{tid}/stat").as_bytes(), libc::O_RDONLY, 0).map(|fd| {
                            let b = sys::read_fd_all(fd, 4096);
                            sys::close(fd);
                            String::from_utf8_lossy(&b).into_owned()
                        });
                        if let Ok(s) = stat {
                            // fields after the ")" : state ... utime(14) stime(15)
                            let rest: Vec<&str> = s.rsplit(')').next().unwrap_or("").split_whitespace().collect();
                            let state = rest.first().copied().unwrap_or("?");
                            let cpu: u64 = rest.get(11).and_then(|x| x.parse::<u64>().ok()).unwrap_or(0) + rest.get(12).and_then(|x| x.parse::<u64>().ok()).unwrap_or(0);
                            // CPU ticks (1/100 s) consumed during the last 10 s poll interval
                            let used = match last_cpu {
                                Some(l) => cpu.saturating_sub(l),
                                None => 0,
                            };
                            last_cpu = Some(cpu);
                            if state == "R" && used < 800 {
                                verdict = "starved"; // runnable, but was given less than 8 of the last 10 s of CPU
                            } else if state == "R" {
                                verdict = "spinning";
                            }
                        }
                    }
                    if verdict == "starved" && polls < 60 {
                        continue;
                    }
                    // a thread seen sleeping once may just be waiting for memory or
                    // I/O on an overloaded machine: blocked means blocked three polls in a row
                    if verdict == "blocked" && polls < 3 {
                        continue;
                    }
                    out.hang = true;
                    out.find("hang", format!("a caller thread made no system call for {} s ({verdict})", polls * 10), out.steps);
                    return false;
                }
                Err(e) => {
                    out.harness_error = Some(format!("recv: {}", sys::errname(e)));
                    return false;
                }
            }
        }
    }
}

pub fn diff_snap(a: &[String], b: &[String]) -> String {
    let mut d = Vec::new();
    for x in a {
        if !b.contains(x) {
            d.push(format!("-{x}"));
        }
    }
    for x in b {
        if !a.contains(x) {
            d.push(format!("+{x}"));
        }
    }
    d.truncate(8);
    d.join(" | ")
}
