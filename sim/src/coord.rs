//! Coordinator (never filtered, single-threaded): plans batches, runs them in
//! universe processes (up to 16 in parallel), aggregates results, matches
//! known findings, writes replay files and the evidence file.
#![allow(dead_code)]

use crate::case::{Case, Violation};
use crate::sup::{UniCfg, Universe};
use crate::sys;
use serde_json::{json, Map, Value};
use std::collections::{BTreeMap, BTreeSet};
use std::io::{BufRead, BufReader, Read};
use std::process::{Child, Command, Stdio};

pub const DEFAULT_SEED: u64 = 20260101;

#[derive(Clone, Debug)]
pub struct Batch {
    pub check: String,
    pub phase: String,
    pub uni: UniCfg,
    pub seed: u64,
    pub lo: u64,
    pub hi: u64,
    /// a fresh universe (process-wide lazies untouched) for every run index
    pub fresh: bool,
    pub tier: String,
    pub extra: Value,
}

impl Batch {
    pub fn to_json(&self) -> Value {
        json!({"check": self.check, "phase": self.phase, "uni": self.uni.to_json(), "seed": self.seed, "lo": self.lo, "hi": self.hi,
               "fresh": self.fresh, "tier": self.tier, "extra": self.extra})
    }
    pub fn from_json(v: &Value) -> Batch {
        Batch {
            check: v["check"].as_str().unwrap_or("").into(),
            phase: v["phase"].as_str().unwrap_or("").into(),
            uni: UniCfg::from_json(&v["uni"]),
            seed: v["seed"].as_u64().unwrap_or(DEFAULT_SEED),
            lo: v["lo"].as_u64().unwrap_or(0),
            hi: v["hi"].as_u64().unwrap_or(0),
            fresh: v["fresh"].as_bool().unwrap_or(false),
            tier: v["tier"].as_str().unwrap_or("quick").into(),
            extra: v.get("extra").cloned().unwrap_or(Value::Null),
        }
    }
}

/// Everything a batch reports back. Merged by the coordinator.
#[derive(Default, Debug)]
pub struct Stats {
    pub evaluations: u64,
    pub nontrivial: BTreeSet<u64>,
    pub interleavings: BTreeSet<u64>,
    pub steps: u64,
    pub counters: BTreeMap<String, u64>,
    pub samples: Vec<Value>,
    pub violations: Vec<Value>,
    pub harness_errors: Vec<String>,
    /// (run index, record) for cross-universe comparison
    pub records: Vec<(u64, String)>,
    pub notes: Vec<String>,
}

impl Stats {
    pub fn count(&mut self, key: &str, n: u64) {
        *self.counters.entry(key.to_string()).or_insert(0) += n;
    }
    pub fn sample(&mut self, v: Value) {
        if self.samples.len() < 3 {
            self.samples.push(v);
        }
    }
    pub fn violation(&mut self, v: &Violation) {
        if self.violations.len() < 50 {
            self.violations.push(v.to_json());
        }
        self.count("violations_raw", 1);
    }
    pub fn merge_runout(&mut self, out: &crate::sup::RunOut) {
        self.steps += out.steps as u64;
        for (k, v) in &out.attacks_applied {
            self.count(&format!("attacker.{k}"), *v);
        }
        if out.attacks_failed > 0 {
            self.count("attacker.noop", out.attacks_failed);
        }
        for (k, v) in &out.faults_fired {
            self.count(&format!("fault_fired.{k}"), *v);
        }
        for (k, v) in &out.probes {
            self.count(&format!("probe.{k}"), *v);
        }
        self.interleavings.insert(out.interleaving_hash);
    }
    pub fn to_json(&self) -> Value {
        json!({
            "t": "stats",
            "evaluations": self.evaluations,
            "nontrivial": self.nontrivial.iter().collect::<Vec<_>>(),
            "interleavings": self.interleavings.iter().collect::<Vec<_>>(),
            "steps": self.steps,
            "counters": self.counters,
            "samples": self.samples,
            "violations": self.violations,
            "harness_errors": self.harness_errors,
            "records": self.records.iter().map(|(i, r)| json!([i, r])).collect::<Vec<_>>(),
            "notes": self.notes,
        })
    }
    pub fn merge_json(&mut self, v: &Value) {
        self.evaluations += v["evaluations"].as_u64().unwrap_or(0);
        for x in v["nontrivial"].as_array().into_iter().flatten() {
            self.nontrivial.insert(x.as_u64().unwrap_or(0));
        }
        for x in v["interleavings"].as_array().into_iter().flatten() {
            self.interleavings.insert(x.as_u64().unwrap_or(0));
        }
        self.steps += v["steps"].as_u64().unwrap_or(0);
        if let Some(m) = v["counters"].as_object() {
            for (k, x) in m {
                self.count(k, x.as_u64().unwrap_or(0));
            }
        }
        for x in v["samples"].as_array().into_iter().flatten() {
            self.sample(x.clone());
        }
        for x in v["violations"].as_array().into_iter().flatten() {
            self.violations.push(x.clone());
        }
        for x in v["harness_errors"].as_array().into_iter().flatten() {
            self.harness_errors.push(x.as_str().unwrap_or("").to_string());
        }
        for x in v["records"].as_array().into_iter().flatten() {
            self.records.push((x[0].as_u64().unwrap_or(0), x[1].as_str().unwrap_or("").to_string()));
        }
        for x in v["notes"].as_array().into_iter().flatten() {
            let s = x.as_str().unwrap_or("").to_string();
            if !self.notes.contains(&s) {
                self.notes.push(s);
            }
        }
    }
}

// --------------------------------------------------------- batch process

/// Entry point of `simctl universe <batch json>`: a small parent that forks
/// the actual universe(s) so that a dying universe is observed, not fatal.
pub fn batch_process(b: &Batch, run: &dyn Fn(&mut Universe, &Batch, &mut Stats)) {
    // shared progress word: the run index the child is working on
    let page = unsafe { libc::mmap(std::ptr::null_mut(), 4096, libc::PROT_READ | libc::PROT_WRITE, libc::MAP_SHARED | libc::MAP_ANONYMOUS, -1, 0) } as *mut u64;
    let mut lo = b.lo;
    // a universe whose warm-up hangs (a starved machine) is booted again, twice at most
    let mut warmup_retries = 0;
    while lo < b.hi {
        let hi = if b.fresh { lo + 1 } else { b.hi };
        unsafe { *page = lo };
        let pid = unsafe { libc::fork() };
        if pid == 0 {
            // child: becomes the universe
            let mut sub = b.clone();
            sub.lo = lo;
            sub.hi = hi;
            let mut st = Stats::default();
            match Universe::boot(sub.uni.clone()) {
                Ok(mut u) => {
                    PROGRESS.store(page as usize, std::sync::atomic::Ordering::SeqCst);
                    run(&mut u, &sub, &mut st);
                }
                Err(e) => st.harness_errors.push(format!("universe boot: {e}")),
            }
            if warmup_retries < 2 && st.evaluations == 0 && st.violations.is_empty() && !st.harness_errors.is_empty() && st.harness_errors.iter().all(|e| e.starts_with("warm-up:") || e.starts_with("universe boot:")) {
                unsafe { libc::_exit(77) };
            }
            let line = format!("{}\n", st.to_json());
            let mut off = 0;
            while off < line.len() {
                let r = unsafe { libc::write(200, line[off..].as_ptr() as *const libc::c_void, line.len() - off) };
                if r <= 0 {
                    break;
                }
                off += r as usize;
            }
            unsafe { libc::_exit(0) };
        }
        let mut status = 0;
        unsafe { libc::waitpid(pid, &mut status, 0) };
        if libc::WIFEXITED(status) && libc::WEXITSTATUS(status) == 77 {
            warmup_retries += 1;
            eprintln!("note: universe warm-up failed ({} {} lo={}), booting another one", b.check, b.phase, lo);
            continue;
        }
        if libc::WIFSIGNALED(status) || (libc::WIFEXITED(status) && libc::WEXITSTATUS(status) != 0) {
            let at = unsafe { *page };
            let how = if libc::WIFSIGNALED(status) { format!("signal {}", libc::WTERMSIG(status)) } else { format!("exit {}", libc::WEXITSTATUS(status)) };
            println!("{}", json!({"t": "died", "run": at, "how": how, "check": b.check, "phase": b.phase, "uni": b.uni.to_json(), "seed": b.seed, "batch": b.to_json()}));
            lo = at + 1;
        } else {
            let at = unsafe { *page };
            // a child may stop early (poisoned universe): it reports the next index
            lo = if at + 1 > hi || !POISON_RESUME { hi } else { at + 1 };
        }
    }
}

const POISON_RESUME: bool = true;
pub static PROGRESS: std::sync::atomic::AtomicUsize = std::sync::atomic::AtomicUsize::new(0);

/// Called by check drivers before each run index.
pub fn progress(i: u64) {
    let p = PROGRESS.load(std::sync::atomic::Ordering::Relaxed) as *mut u64;
    if !p.is_null() {
        unsafe { *p = i };
    }
}

// ------------------------------------------------------------ coordinator

pub struct CheckResult {
    pub stats: Stats,
    pub died: Vec<Value>,
    pub wall_s: f64,
}

pub fn run_batches(batches: Vec<Batch>, jobs: usize) -> CheckResult {
    let exe = std::env::current_exe().expect("current_exe");
    let t0 = sys::now_s();
    let mut stats = Stats::default();
    let mut died = Vec::new();
    let mut queue: std::collections::VecDeque<Batch> = batches.into();
    let mut running: Vec<(Child, std::thread::JoinHandle<Vec<String>>, usize)> = Vec::new();
    let ncpu = unsafe { libc::sysconf(libc::_SC_NPROCESSORS_ONLN) }.max(1) as usize;
    let mut cpu_busy = vec![false; jobs.max(1)];
    loop {
        while running.len() < jobs {
            match queue.pop_front() {
                Some(b) => {
                    let slot = cpu_busy.iter().position(|b| !*b).unwrap_or(0);
                    cpu_busy[slot] = true;
                    let mut child = Command::new(&exe)
                        .env("SIM_CPU", format!("{}", slot % ncpu))
                        .arg("universe")
                        .stdin(Stdio::piped())
                        .stdout(Stdio::piped())
                        .stderr(Stdio::inherit())
                        .spawn()
                        .expect("spawn universe");
                    {
                        use std::io::Write;
                        let mut si = child.stdin.take().unwrap();
                        let _ = si.write_all(b.to_json().to_string().as_bytes());
                    }
                    let so = child.stdout.take().unwrap();
                    let h = std::thread::spawn(move || {
                        let mut lines = Vec::new();
                        let mut r = BufReader::new(so);
                        let mut s = String::new();
                        let _ = r.read_to_string(&mut s);
                        for l in s.lines() {
                            lines.push(l.to_string());
                        }
                        lines
                    });
                    running.push((child, h, slot));
                }
                None => break,
            }
        }
        if running.is_empty() {
            break;
        }
        // wait for any child
        let mut i = 0;
        let mut progressed = false;
        while i < running.len() {
            match running[i].0.try_wait() {
                Ok(Some(_)) => {
                    let (mut c, h, slot) = running.remove(i);
                    cpu_busy[slot] = false;
                    let _ = c.wait();
                    for l in h.join().unwrap_or_default() {
                        if let Ok(v) = serde_json::from_str::<Value>(&l) {
                            match v["t"].as_str() {
                                Some("stats") => stats.merge_json(&v),
                                Some("died") => died.push(v),
                                _ => {}
                            }
                        }
                    }
                    progressed = true;
                }
                _ => i += 1,
            }
        }
        if !progressed {
            std::thread::sleep(std::time::Duration::from_millis(5));
        }
    }
    CheckResult { stats, died, wall_s: sys::now_s() - t0 }
}

// ---------------------------------------------------------- known findings

pub struct Known {
    pub entries: Vec<Value>,
}

impl Known {
    pub fn load() -> Known {
        let p = verif_dir().join("known_findings.json");
        let v: Value = std::fs::read_to_string(p).ok().and_then(|s| serde_json::from_str(&s).ok()).unwrap_or(json!({"findings": []}));
        Known { entries: v["findings"].as_array().cloned().unwrap_or_default() }
    }
    /// A violation matches a known entry if property, clause and op agree and
    /// every `match` predicate (substring of the serialised ops / detail) holds.
    pub fn matches(&self, viol: &Value) -> Option<String> {
        let sig = viol["expect"]["signature"].as_str().unwrap_or("");
        let ops = viol["ops"].to_string();
        let detail = viol["expect"]["detail"].as_str().unwrap_or("");
        let uni = viol["universe"].to_string();
        let plan = viol["plan"].to_string();
        let whole = viol.to_string();
        for e in &self.entries {
            if e["status"].as_str() != Some("known") {
                continue; // fixed entries suppress nothing
            }
            let es = e["signature"].as_str().unwrap_or("");
            let sig_ok = match es.strip_suffix('*') {
                Some(prefix) => sig.starts_with(prefix),
                None => es == sig,
            };
            if !sig_ok {
                continue;
            }
            let ok = |key: &str, hay: &str| e["match"][key].as_array().map(|a| a.iter().all(|s| hay.contains(s.as_str().unwrap_or("\u{0}")))).unwrap_or(true);
            let any_ok = |key: &str, hay: &str| e["match"][key].as_array().map(|a| a.is_empty() || a.iter().any(|s| hay.contains(s.as_str().unwrap_or("\u{0}")))).unwrap_or(true);
            if ok("ops_contains", &ops) && ok("detail_contains", detail) && ok("universe_contains", &uni) && ok("plan_contains", &plan) && ok("json_contains", &whole) && any_ok("ops_contains_any", &ops) && any_ok("detail_contains_any", detail) && any_ok("plan_contains_any", &plan) {
                return Some(e["what"].as_str().unwrap_or("").to_string());
            }
        }
        None
    }
}

pub fn verif_dir() -> std::path::PathBuf {
    if let Ok(d) = std::env::var("VERIF_DIR") {
        return d.into();
    }
    // binary lives in <verif>/sim/target/release/simctl
    let exe = std::env::current_exe().unwrap_or_default();
    let mut p = exe.clone();
    for _ in 0..4 {
        p.pop();
    }
    if p.join("properties.jsonl").exists() {
        p
    } else {
        "/verif".into()
    }
}

pub struct Finalised {
    pub exit_code: i32,
}

/// Common tail of every check: known-finding matching, replay files,
/// evidence file, exit code.
#[allow(clippy::too_many_arguments)]
pub fn finalise(
    property: &str,
    tier: &str,
    seed: u64,
    level: &str,
    rule: &str,
    res: CheckResult,
    extra_cov: Map<String, Value>,
    assumptions: Vec<String>,
    exhaustive: bool,
    died_case: &dyn Fn(&Batch, u64) -> Option<Case>,
) -> Finalised {
    let known = Known::load();
    let vd = verif_dir();
    let _ = std::fs::create_dir_all(vd.join("replays"));
    let _ = std::fs::create_dir_all(vd.join("evidence"));
    let mut exit_code = 0;
    let mut reported: BTreeSet<String> = BTreeSet::new();
    let mut per_sig: BTreeMap<String, u32> = BTreeMap::new();
    let mut known_hit: BTreeMap<String, u64> = BTreeMap::new();
    let mut new_viol = 0u64;
    let mut all_viol: Vec<Value> = res.stats.violations.clone();
    for d in &res.died {
        // a universe that died is a violation of "does not panic or abort"
        let b = Batch::from_json(&d["batch"]);
        let run = d["run"].as_u64().unwrap_or(0);
        let mut v = match died_case(&b, run) {
            Some(c) => c.to_json(),
            None => json!({"property": property, "phase": d["phase"], "universe": d["uni"], "ops": [], "plan": {"seed": d["seed"], "run": d["run"]}}),
        };
        let opname = v["ops"][0].as_array().and_then(|a| a.last()).map(|o| o["op"][0].as_str().unwrap_or("").to_string()).unwrap_or_default();
        v["expect"] = json!({"violation": true, "signature": format!("{property}/universe-died/{opname}"),
                       "detail": format!("universe process died ({}) while running this case (run index {run}): a panic that cannot unwind, an abort or a stack overflow", d["how"].as_str().unwrap_or("?"))});
        all_viol.push(v);
    }
    for v in &all_viol {
        if let Some(what) = known.matches(v) {
            *known_hit.entry(what).or_insert(0) += 1;
            continue;
        }
        new_viol += 1;
        let sig = v["expect"]["signature"].as_str().unwrap_or("?").to_string();
        let n = per_sig.entry(sig.clone()).or_insert(0u32);
        *n += 1;
        if *n > 3 {
            exit_code = 1;
            continue; // at most three replay files per signature
        }
        let mut h = 0xcbf29ce484222325u64;
        sys::fnv(&mut h, v.to_string().as_bytes());
        let path = vd.join("replays").join(format!("{property}-{seed}-{:08x}.json", h as u32));
        // minimise the first replay of every signature (delta debugging by replay in fresh universes)
        let v = &if *n == 1 && std::env::var("VERIF_NO_MINIMISE").is_err() {
            let (m, used) = crate::checks::minimise(v, 60);
            eprintln!("minimised {sig}: {used} replays");
            m
        } else {
            v.clone()
        };
        let _ = std::fs::write(&path, serde_json::to_string_pretty(v).unwrap_or_default());
        println!("VIOLATION property={property} replay={}", path.display());
        println!("  signature: {sig}");
        println!("  detail: {}", v["expect"]["detail"].as_str().unwrap_or(""));
        reported.insert(sig);
        exit_code = 1;
    }
    for (what, n) in &known_hit {
        println!("KNOWN-FINDING: property={property} {what} (seen {n}x)");
    }
    if !res.stats.harness_errors.is_empty() {
        for e in res.stats.harness_errors.iter().take(10) {
            eprintln!("HARNESS-ERROR: {e}");
        }
        if exit_code == 0 {
            exit_code = 2;
        }
    }
    // evidence
    let mut cov = Map::new();
    cov.insert("evaluations".into(), json!(res.stats.evaluations));
    cov.insert("distinct_nontrivial".into(), json!(res.stats.nontrivial.len()));
    cov.insert("rule".into(), json!(rule));
    cov.insert("samples".into(), json!(res.stats.samples));
    cov.insert("exhaustive".into(), json!(exhaustive));
    cov.insert("simulated_steps".into(), json!(res.stats.steps));
    cov.insert("distinct_interleavings".into(), json!(res.stats.interleavings.len()));
    cov.insert("runs_per_hour".into(), json!((res.stats.evaluations as f64 / res.wall_s.max(0.001) * 3600.0) as u64));
    cov.insert("simulated_time".into(), json!("not applicable: libpathrs reads no clock and sets no timer; the logical clock is the step counter (simulated_steps)"));
    let mut faults = Map::new();
    let mut attacker = Map::new();
    let mut probes = Map::new();
    let mut other = Map::new();
    for (k, v) in &res.stats.counters {
        if let Some(r) = k.strip_prefix("fault_fired.") {
            faults.insert(r.into(), json!(v));
        } else if let Some(r) = k.strip_prefix("attacker.") {
            attacker.insert(r.into(), json!(v));
        } else if let Some(r) = k.strip_prefix("probe.") {
            probes.insert(r.into(), json!(v));
        } else {
            other.insert(k.clone(), json!(v));
        }
    }
    cov.insert("faults_fired".into(), Value::Object(faults));
    cov.insert("attacker_ops".into(), Value::Object(attacker));
    cov.insert("probes".into(), Value::Object(probes));
    cov.insert("counters".into(), Value::Object(other));
    cov.insert("known_findings_seen".into(), json!(known_hit));
    cov.insert("universes_died".into(), json!(res.died.len()));
    cov.insert("notes".into(), json!(res.stats.notes));
    cov.insert(
        "real".into(),
        json!(["libpathrs (Rust API and C API)", "rustix", "std", "libc", "Linux VFS / tmpfs / procfs / mount code of this VM's kernel"]),
    );
    cov.insert(
        "simulated".into(),
        json!(["which caller thread runs between two system calls", "the attacker process", "futex wait/wake of caller threads", "getrandom",
               "availability of kernel features and privileges (by refusal)", "system-call failures", "text of fs.protected_symlinks"]),
    );
    cov.insert("stubbed".into(), json!([]));
    for (k, v) in extra_cov {
        cov.insert(k, v);
    }
    let ev = json!({
        "property_id": property,
        "tier": tier,
        "seed": seed,
        "level": level,
        "coverage": Value::Object(cov),
        "assumptions": assumptions,
        "wall_s": res.wall_s,
        "violations": new_viol,
    });
    let _ = std::fs::write(vd.join("evidence").join(format!("{property}.json")), serde_json::to_string_pretty(&ev).unwrap_or_default());
    println!(
        "{property} [{tier}] seed={seed}: {} evaluations, {} distinct non-trivial, {} steps, {:.1}s, new violations={new_viol}, known={}",
        res.stats.evaluations,
        res.stats.nontrivial.len(),
        res.stats.steps,
        res.wall_s,
        known_hit.values().sum::<u64>()
    );
    Finalised { exit_code }
}

pub fn read_lines<R: Read>(r: R) -> Vec<String> {
    BufReader::new(r).lines().map_while(Result::ok).collect()
}

/// Replay: run one explicit case in a fresh universe process.
pub fn case_from_file(path: &str) -> Option<Case> {
    let s = std::fs::read_to_string(path).ok()?;
    let v: Value = serde_json::from_str(&s).ok()?;
    Case::from_json(&v)
}
