//! Seeded generators: worlds, paths, flag sets, attacker mutations.
#![allow(dead_code)]

use crate::rng::Rng;
use crate::world::{Entry, Kind, Mutation, WorldSpec};

pub const NAMES: [&str; 6] = ["a", "b", "c", "d", "e", "f"];

#[derive(Clone, Debug)]
pub struct WorldParams {
    pub depth: usize,
    pub fanout: usize,
    pub alphabet: usize,
    /// per-mille of entries that are symlinks
    pub link_density: u64,
    pub fifos: bool,
    pub hardlinks: bool,
    /// add chains / loops
    pub loops: bool,
    /// mirror in-root names outside (decoys) so that escapes land
    pub decoys: bool,
    pub max_entries: usize,
    /// generate link chains of 20..41 links (only C01 can judge them: the
    /// kernel's own answer is unstable in that band)
    pub long_chains: bool,
}

impl WorldParams {
    pub fn swarm(rng: &mut Rng) -> WorldParams {
        WorldParams {
            depth: rng.range(1, 4) as usize,
            fanout: rng.range(1, 4) as usize,
            alphabet: rng.range(2, 5) as usize,
            link_density: *rng.pick(&[0u64, 150, 300, 500]),
            fifos: rng.chance(1, 4),
            hardlinks: rng.chance(1, 4),
            loops: rng.chance(1, 2),
            decoys: true,
            max_entries: 40,
            long_chains: false,
        }
    }
}

/// in-root paths (relative to the root, no leading slash) of a spec
pub fn inroot_paths(spec: &WorldSpec) -> Vec<(String, Kind)> {
    spec.entries
        .iter()
        .filter_map(|e| e.path.strip_prefix("root/").map(|p| (p.to_string(), e.kind.clone())))
        .collect()
}

pub fn inroot_dirs(spec: &WorldSpec) -> Vec<String> {
    let mut v: Vec<String> = vec![String::new()];
    v.extend(inroot_paths(spec).into_iter().filter(|(_, k)| *k == Kind::Dir).map(|(p, _)| p));
    v
}

fn join(dir: &str, name: &str) -> String {
    if dir.is_empty() {
        name.to_string()
    } else {
        format!("{dir}/{name}")
    }
}

/// relative path from directory `from` (in-root, "" = root) to `to`
fn relpath(from: &str, to: &str) -> String {
    let f: Vec<&str> = from.split('/').filter(|s| !s.is_empty()).collect();
    let t: Vec<&str> = to.split('/').filter(|s| !s.is_empty()).collect();
    let mut i = 0;
    while i < f.len() && i < t.len() && f[i] == t[i] {
        i += 1;
    }
    let mut out: Vec<String> = Vec::new();
    for _ in i..f.len() {
        out.push("..".into());
    }
    for c in &t[i..] {
        out.push(c.to_string());
    }
    if out.is_empty() {
        ".".into()
    } else {
        out.join("/")
    }
}

pub fn gen_link_target(rng: &mut Rng, dir: &str, existing: &[(String, Kind)]) -> String {
    let pick_existing = |rng: &mut Rng| -> String {
        if existing.is_empty() {
            "a".to_string()
        } else {
            rng.pick(existing).0.clone()
        }
    };
    let mut t = match rng.below(16) {
        0..=3 => relpath(dir, &pick_existing(rng)),
        4..=5 => format!("/{}", pick_existing(rng)),
        6 => "nonexistent".to_string(),
        7 => "..".to_string(),
        8 => "../..".to_string(),
        9 => "../../../../outside/secret".to_string(),
        // (absolute on the host: dangling or different inside the root)
        10 => rng.pick(&["/mnt/w/outside/secret", "/mnt/w/outside", "/mnt/w/outside/landing", "/mnt/w/sibling"]).to_string(),
        11 => "/etc/passwd".to_string(),
        12 => "/".to_string(),
        13 => ".".to_string(),
        14 => format!("{}/../{}", relpath(dir, &pick_existing(rng)), rng.pick(&NAMES[..3])),
        _ => format!("../{}", relpath(dir, &pick_existing(rng))),
    };
    match rng.below(12) {
        0 => t.push('/'),
        1 => t.push_str("/."),
        2 => t.push_str("//"),
        3 => t = format!("/{t}"),
        4 => t = t.replace('/', "//"),
        _ => {}
    }
    if t.is_empty() {
        t = ".".into();
    }
    t
}

pub fn gen_world(rng: &mut Rng, p: &WorldParams) -> WorldSpec {
    let mut spec = WorldSpec::default();
    spec.push(Entry::dir("root"));
    // outside zone: secrets and (later) decoys
    spec.push(Entry::file("secret", "TOP-SECRET-PARENT"));
    spec.push(Entry::dir("outside"));
    spec.push(Entry::file("outside/secret", "OUTSIDE-SECRET"));
    spec.push(Entry::dir("outside/landing"));
    spec.push(Entry::dir("sibling"));
    spec.push(Entry::file("sibling/file", "SIBLING-FILE"));
    let names = &NAMES[..p.alphabet.min(NAMES.len())];
    let mut dirs: Vec<(String, usize)> = vec![(String::new(), 0)];
    let mut existing: Vec<(String, Kind)> = Vec::new();
    let mut uniq = 0;
    let mut di = 0;
    while di < dirs.len() && spec.entries.len() < p.max_entries {
        let (dir, depth) = dirs[di].clone();
        di += 1;
        let n = rng.range(1, p.fanout as u64) as usize;
        for _ in 0..n {
            let name = *rng.pick(names);
            let path = join(&dir, name);
            if existing.iter().any(|(e, _)| *e == path) {
                continue;
            }
            uniq += 1;
            let full = format!("root/{path}");
            let roll = rng.below(1000);
            if roll < p.link_density {
                let t = gen_link_target(rng, &dir, &existing);
                spec.push(Entry::link(&full, &t));
                existing.push((path, Kind::Symlink(t)));
            } else if depth < p.depth && rng.chance(6, 10) {
                let mode = *rng.pick(&[0o755u32, 0o755, 0o755, 0o755, 0o711, 0o700, 0o1777, 0o2775]);
                let mut e = Entry::dir(&full).mode(mode);
                if mode & 0o2000 != 0 {
                    e = e.own(0, 1000); // setgid directory: children inherit the group and the bit
                }
                spec.push(e);
                existing.push((path.clone(), Kind::Dir));
                dirs.push((path, depth + 1));
            } else if p.fifos && rng.chance(1, 8) {
                spec.push(Entry::fifo(&full));
                existing.push((path, Kind::Fifo));
            } else if p.hardlinks && rng.chance(1, 6) && existing.iter().any(|(_, k)| matches!(k, Kind::File(_))) {
                let files: Vec<&(String, Kind)> = existing.iter().filter(|(_, k)| matches!(k, Kind::File(_))).collect();
                let tgt = format!("root/{}", rng.pick(&files).0);
                spec.push(Entry::hard(&full, &tgt));
                existing.push((path, Kind::Hardlink(tgt)));
            } else {
                let c = format!("content-{uniq}");
                spec.push(Entry::file(&full, &c));
                existing.push((path, Kind::File(c)));
            }
        }
    }
    if p.loops {
        // a self loop, a two-cycle and a chain
        let d = rng.pick(&dirs).0.clone();
        match rng.below(4) {
            0 => {
                let l = join(&d, "loop");
                spec.push(Entry::link(&format!("root/{l}"), "loop"));
            }
            1 => {
                let (l1, l2) = (join(&d, "l1"), join(&d, "l2"));
                spec.push(Entry::link(&format!("root/{l1}"), "l2"));
                spec.push(Entry::link(&format!("root/{l2}"), "l1"));
            }
            2 => {
                // chain of length n ending at an existing entry (or dangling)
                let n = if p.long_chains { *rng.pick(&[2usize, 5, 20, 38, 39, 40]) } else { *rng.pick(&[2usize, 3, 5, 8]) };
                let end = if existing.is_empty() || rng.chance(1, 5) { "nothing".to_string() } else { format!("/{}", rng.pick(&existing).0) };
                for i in 0..n {
                    let tgt = if i + 1 == n { end.clone() } else { format!("ch{}", i + 1) };
                    spec.push(Entry::link(&format!("root/{}", join(&d, &format!("ch{i}"))), &tgt));
                }
            }
            _ => {
                let l = join(&d, "up");
                spec.push(Entry::link(&format!("root/{l}"), "../../../.."));
            }
        }
    }
    if p.decoys {
        // every in-root name also exists outside, so that an escape *lands*:
        // outside/landing mirrors the structure with never-inside objects,
        // and the root's parent has same-named entries
        let snapshot = inroot_paths(&spec);
        for (path, kind) in snapshot.iter().take(14) {
            let d = format!("outside/landing/{path}");
            match kind {
                Kind::Dir => spec.push(Entry::dir(&d)),
                Kind::Symlink(_) => spec.push(Entry::link(&d, &format!("DECOY-BODY-{path}"))),
                _ => spec.push(Entry::file(&d, &format!("DECOY-{path}"))),
            }
        }
        for n in names.iter().take(3) {
            if !spec.has(n) {
                spec.push(Entry::file(n, &format!("PARENT-DECOY-{n}")));
            }
        }
        spec.push(Entry::dir("etc"));
        spec.push(Entry::file("etc/passwd", "PARENT-ETC-PASSWD"));
        // the sibling whose name is "<root> (deleted)" (see attack::race_world)
        spec.push(Entry::dir("root (deleted)"));
        for (path, kind) in snapshot.iter().take(6) {
            let d = format!("root (deleted)/{path}");
            match kind {
                Kind::Dir => spec.push(Entry::dir(&d)),
                Kind::Symlink(_) => spec.push(Entry::link(&d, &format!("DELETED-SIBLING-BODY-{path}"))),
                _ => spec.push(Entry::file(&d, &format!("DELETED-SIBLING-{path}"))),
            }
        }

    }
    // rarely: links whose body has exactly the longest length the kernel stores (PATH_MAX-1) and
    // one byte less. The body is made of a few 255-byte names (so that walking it takes a handful
    // of steps, not thousands) and leads nowhere: what matters is that the body can be *read*
    if rng.chance(1, 30) {
        for (k, len) in [(0usize, 4095usize), (1, 4094)] {
            let mut body = String::new();
            while body.len() + 256 <= len {
                body.push_str(&"L".repeat(255));
                body.push('/');
            }
            while body.len() < len {
                body.push('t');
            }
            let name = format!("root/longlink{k}");
            if !spec.has(&name) {
                spec.push(Entry::link(&name, &body));
            }
        }
    }
    spec
}

/// Decorated lookup path for a world.
pub fn gen_path(rng: &mut Rng, spec: &WorldSpec, alphabet: usize) -> String {
    let entries = inroot_paths(spec);
    let names = &NAMES[..alphabet.clamp(2, NAMES.len())];
    let mut comps: Vec<String> = Vec::new();
    // base: an existing entry (70 %) or nothing
    if !entries.is_empty() && rng.chance(7, 10) {
        let base = &rng.pick(&entries).0;
        comps.extend(base.split('/').map(|s| s.to_string()));
    }
    // extra tokens
    let extra = match rng.below(10) {
        0..=3 => 0,
        4..=6 => 1,
        7..=8 => 2,
        _ => rng.range(3, 6),
    };
    for _ in 0..extra {
        let tok = match rng.below(12) {
            0..=4 => rng.pick(names).to_string(),
            5..=7 => "..".to_string(),
            8 => ".".to_string(),
            9 => String::new(),
            10 => {
                // the last component of some entry (likely to exist after a link)
                if entries.is_empty() {
                    "a".into()
                } else {
                    rng.pick(&entries).0.rsplit('/').next().unwrap().to_string()
                }
            }
            _ => "missing".to_string(),
        };
        // insert at a random position (mostly at the end)
        if rng.chance(7, 10) || comps.is_empty() {
            comps.push(tok);
        } else {
            let pos = rng.below(comps.len() as u64 + 1) as usize;
            comps.insert(pos, tok);
        }
    }
    let mut p = comps.join("/");
    match rng.below(20) {
        0 => p = format!("/{p}"),
        1 => p = format!("//{p}"),
        2 => p.push('/'),
        3 => p.push_str("/."),
        4 => p.push_str("/.."),
        5 => p = format!("../{p}"),
        6 => p = format!("../../{p}"),
        7 => p = format!("./{p}"),
        8 => p.push_str("//"),
        _ => {}
    }
    if rng.chance(1, 60) {
        p = (*rng.pick(&["", ".", "..", "/", "//", "../..", "./.", "/.."])).to_string();
    }
    if rng.chance(1, 200) {
        // over-long component
        let n = *rng.pick(&[255usize, 256]);
        p = format!("{p}/{}", "x".repeat(n));
    }
    p
}

/// A name that does not exist yet, under an existing directory (for creation ops)
pub fn gen_new_path(rng: &mut Rng, spec: &WorldSpec, alphabet: usize) -> String {
    let dirs = inroot_dirs(spec);
    let entries = inroot_paths(spec);
    let parent = match rng.below(10) {
        0..=5 => rng.pick(&dirs).clone(),
        6..=7 => {
            // through a symlink / arbitrary entry
            if entries.is_empty() {
                String::new()
            } else {
                rng.pick(&entries).0.clone()
            }
        }
        _ => gen_path(rng, spec, alphabet),
    };
    let name = match rng.below(10) {
        0..=5 => format!("new{}", rng.below(3)),
        6..=7 => NAMES[rng.below(alphabet.clamp(2, NAMES.len()) as u64) as usize].to_string(),
        8 => "..".to_string(),
        _ => ".".to_string(),
    };
    let mut p = join(&parent, &name);
    match rng.below(16) {
        0 => p.push('/'),
        1 => p = format!("/{p}"),
        2 => p = format!("../{p}"),
        _ => {}
    }
    p
}

/// open(2) flag sets that make sense for an open of an existing object
pub fn gen_open_flags(rng: &mut Rng) -> i32 {
    let mut f = *rng.pick(&[libc::O_RDONLY, libc::O_RDONLY, libc::O_WRONLY, libc::O_RDWR, libc::O_PATH]);
    for (bit, per_mille) in [
        (libc::O_NOFOLLOW, 200u64),
        (libc::O_DIRECTORY, 150),
        (libc::O_APPEND, 100),
        (libc::O_NONBLOCK, 1000), // always: never block on a fifo
        (libc::O_NOATIME, 60),
        (libc::O_SYNC, 40),
        (libc::O_DSYNC, 40),
        (libc::O_NOCTTY, 60),
        (libc::O_CLOEXEC, 300),
        (libc::O_TRUNC, 60),
        (libc::O_DIRECT, 30),
    ] {
        if rng.chance(per_mille, 1000) {
            f |= bit;
        }
    }
    f
}

// ------------------------------------------------------------- attacker

/// One random attacker mutation against the *current* state of the world:
/// names are drawn from the spec's in-root entries so that hits are likely.
pub fn gen_mutation(rng: &mut Rng, spec: &WorldSpec, seq: usize) -> Mutation {
    let entries = inroot_paths(spec);
    let pick = |rng: &mut Rng| -> String {
        if entries.is_empty() {
            "a".into()
        } else {
            // prefix of an entry path: ancestors are the interesting victims
            let p = rng.pick(&entries).0.clone();
            let comps: Vec<&str> = p.split('/').collect();
            let n = rng.range(1, comps.len() as u64) as usize;
            comps[..n].join("/")
        }
    };
    let a = pick(rng);
    let b = pick(rng);
    let last = |p: &str| p.rsplit('/').next().unwrap_or("x").to_string();
    match rng.below(15) {
        14 => Mutation::Rename { src: format!("root/{a}"), dst: format!("root (deleted)/moved{seq}-{}", last(&a)) },
        0 | 1 => Mutation::Exchange { a: format!("root/{a}"), b: format!("root/{b}") },
        2 => Mutation::Rename { src: format!("root/{a}"), dst: format!("outside/landing/moved{seq}-{}", last(&a)) },
        3 => Mutation::Rename { src: format!("root/{a}"), dst: format!("root/{b}") },
        4 => Mutation::Rename { src: format!("root/{a}"), dst: format!("root/{b}/in{seq}") },
        5 => Mutation::SwapInSymlink { path: format!("root/{a}"), target: "/mnt/w/outside".into(), park: format!("outside/landing/parked{seq}-{}", last(&a)) },
        6 => Mutation::SwapInSymlink {
            path: format!("root/{a}"),
            target: format!("{}outside/landing/{a}", "../".repeat(a.matches('/').count() + 1)),
            park: format!("outside/landing/parked{seq}-{}", last(&a)),
        },
        7 => Mutation::SwapInSymlink { path: format!("root/{a}"), target: "/mnt/w/secret".into(), park: format!("outside/landing/parked{seq}-{}", last(&a)) },
        8 => Mutation::SwapInSymlink { path: format!("root/{a}"), target: "..".into(), park: format!("outside/landing/parked{seq}-{}", last(&a)) },
        9 => Mutation::Unlink { path: format!("root/{a}") },
        10 => Mutation::Rmdir { path: format!("root/{a}") },
        11 => Mutation::Exchange { a: format!("root/{a}"), b: format!("outside/landing/{b}") },
        12 => Mutation::Mkdir { path: format!("root/{a}/atk{seq}") },
        _ => Mutation::Rename { src: "root".into(), dst: format!("root-moved{seq}") },
    }
}
