//! C07 - procfs lookups stay inside procfs and follow only the requested
//! final link. Quiescent; K and E universes run the same seeds and the
//! coordinator compares them for sub-paths without '..'.
use super::procgen::{self, EntKind};
use super::*;
use crate::case::{mk_violation, Case};
use crate::coord::{self, Batch, Stats};
use crate::ops::{Base, Facade, Op, OpSpec, Outcome};
use crate::rng::{self, Rng};
use crate::sup::{Hooks, OpRecord, RunCtx};
use serde_json::{json, Map, Value};

pub const PER_BATCH: u64 = 250;
pub const LOOKUPS: usize = 8;

pub fn plan(tier: &str, seed: u64) -> Vec<Batch> {
    let n = match tier {
        "thorough" => 300,
        "dev" => 1,
        _ => 30,
    };
    let mut v = Vec::new();
    for i in 0..n {
        for uni in [UniCfg::k(), UniCfg::e()] {
            v.push(Batch { check: "C07".into(), phase: "menu".into(), uni, seed, lo: i * PER_BATCH, hi: (i + 1) * PER_BATCH, fresh: false, tier: tier.into(), extra: Value::Null });
        }
    }
    // creation flags on every kind of final component, with every decoration: enumerated
    for uni in [UniCfg::k(), UniCfg::e()] {
        for ctor in 0..3u64 {
            v.push(Batch { check: "C07".into(), phase: "creation".into(), uni: uni.clone(), seed, lo: 2_000_000 + ctor * 1000, hi: 2_000_000 + ctor * 1000 + 1, fresh: false, tier: tier.into(), extra: json!({"ctor": ctor}) });
        }
    }
    // a descriptor that appears while open_follow("fd/N") runs (another thread of the caller's
    // process opening a file): every window
    for uni in [UniCfg::k(), UniCfg::e()] {
        v.push(Batch { check: "C07".into(), phase: "racing-fd".into(), uni: uni.clone(), seed, lo: 3_000_000, hi: 3_000_000 + racing_fd_cases().len() as u64, fresh: false, tier: tier.into(), extra: Value::Null });
    }
    // every entry of the live procfs (root, self, self/fd, self/ns, self/task/<tid>, part of self/net)
    for uni in [UniCfg::k(), UniCfg::e()] {
        for ctor in 0..3u64 {
            v.push(Batch { check: "C07".into(), phase: "live".into(), uni: uni.clone(), seed, lo: 1_000_000 + ctor * 1000, hi: 1_000_000 + ctor * 1000 + 1, fresh: false, tier: tier.into(), extra: json!({"ctor": ctor}) });
        }
    }
    v
}

/// all entries of the live procfs, as (base, sub-path), listed through the pristine procfs
pub fn live_entries(tid: i32) -> Vec<(Base, String)> {
    let pp = sys::PRISTINE_PROC.load(std::sync::atomic::Ordering::Relaxed);
    let list = |p: &str| -> Vec<String> {
        match sys::openat(pp, p.as_bytes(), libc::O_RDONLY | libc::O_DIRECTORY, 0) {
            Ok(fd) => {
                let v = sys::listdir_fd(fd).unwrap_or_default();
                sys::close(fd);
                v.into_iter().map(|b| String::from_utf8_lossy(&b).into_owned()).collect()
            }
            Err(_) => Vec::new(),
        }
    };
    let mut out = Vec::new();
    for e in list(".") {
        if !e.bytes().all(|b| b.is_ascii_digit()) {
            out.push((Base::Root, e));
        }
    }
    for e in list("self") {
        out.push((Base::SelfP, e.clone()));
        if matches!(e.as_str(), "fd" | "ns" | "attr" | "fdinfo" | "task") {
            // (descriptors from 200 up are the harness's own)
            for s in list(&format!("self/{e}")).into_iter().filter(|s| s.parse::<u32>().map(|n| n < 200).unwrap_or(true)).take(40) {
                let s = if e == "task" && s == tid.to_string() { "{TID}".to_string() } else { s };
                out.push((Base::SelfP, format!("{e}/{s}")));
            }
        }
        if e == "net" {
            for s in list("self/net").into_iter().take(20) {
                out.push((Base::SelfP, format!("net/{s}")));
            }
        }
    }
    for e in list(&format!("self/task/{tid}")) {
        out.push((Base::ThreadSelf, e));
    }
    out
}

/// creation flags (and the raw __O_TMPFILE bit, which becomes O_TMPFILE as soon as
/// somebody adds O_DIRECTORY) x final components x decorations x {open, open_follow}
pub fn creation_cases(uni: &UniCfg, ctor: u64) -> Vec<Case> {
    const RAW_TMPFILE: i32 = 0o20000000;
    let flagsets = [
        libc::O_TMPFILE | libc::O_RDWR,
        libc::O_TMPFILE | libc::O_WRONLY,
        RAW_TMPFILE | libc::O_RDWR,
        RAW_TMPFILE | libc::O_WRONLY,
        RAW_TMPFILE | libc::O_RDWR | libc::O_NOFOLLOW,
        libc::O_CREAT | libc::O_RDWR,
        libc::O_CREAT | libc::O_EXCL | libc::O_WRONLY,
        libc::O_EXCL | libc::O_RDONLY,
        // with O_PATH the kernel's plain openat() ignores creation flags silently, openat2 does not:
        // the documented refusal must not depend on it
        libc::O_PATH | libc::O_CREAT,
        libc::O_PATH | libc::O_CREAT | libc::O_EXCL,
        libc::O_PATH | libc::O_TMPFILE,
    ];
    let mut lookups: Vec<(Base, String, i32, bool)> = Vec::new();
    for (base, ent) in [(Base::SelfP, "cwd"), (Base::SelfP, "root"), (Base::SelfP, "fd/{RFD}"), (Base::SelfP, "exe"), (Base::SelfP, "status"), (Base::SelfP, "fd"), (Base::ThreadSelf, "cwd"), (Base::Root, "self"), (Base::Root, "sys"), (Base::SelfP, "newfile")] {
        for deco in ["", "/", "/.", "//", "/newfile"] {
            for fl in flagsets {
                for follow in [false, true] {
                    lookups.push((base, format!("{ent}{deco}"), fl, follow));
                }
            }
        }
    }
    let mut cases = Vec::new();
    for chunk in lookups.chunks(40) {
        let mut c = Case::new("C07", "creation", uni.clone());
        let (handle, mut ops, cname) = match ctor {
            0 => (None, vec![], "global"),
            1 => (Some(0), vec![OpSpec::new(Op::ProcNew { ctor: crate::ops::ProcCtor::New, store: 0 })], "new"),
            _ => (Some(0), vec![OpSpec::new(Op::ProcNew { ctor: crate::ops::ProcCtor::FromFsopen, store: 0 })], "fsopen-unmasked"),
        };
        let facade = if handle.is_none() { Facade::C } else { Facade::Rust };
        ops.push(OpSpec::new(Op::ProcOpen { handle, base: Base::Root, path: ".".into(), flags: libc::O_PATH | libc::O_DIRECTORY, follow: false }).facade(facade));
        let mut meta = Vec::new();
        for (base, p, fl, follow) in chunk {
            ops.push(OpSpec::new(Op::ProcOpen { handle, base: *base, path: p.clone(), flags: *fl, follow: *follow }).facade(facade));
            meta.push(json!({"decorated": p.contains('/')}));
        }
        c.world = Some(warm_world());
        c.jobs = vec![ops];
        c.extra = json!({"ctor": cname, "meta": meta});
        cases.push(c);
    }
    cases
}

/// (constructor, base, flags) of the racing-descriptor phase
pub fn racing_fd_cases() -> Vec<(Option<crate::ops::ProcCtor>, Base, i32)> {
    let mut v = Vec::new();
    for ctor in [None, Some(crate::ops::ProcCtor::New), Some(crate::ops::ProcCtor::FromFsopen), Some(crate::ops::ProcCtor::FromPlainOpen)] {
        for base in [Base::SelfP, Base::ThreadSelf] {
            for flags in [libc::O_PATH, libc::O_RDONLY | libc::O_NONBLOCK] {
                v.push((ctor, base, flags));
            }
        }
    }
    v
}

const RACING_FD: i32 = 150;

fn run_racing_fd(u: &mut Universe, b: &Batch, idx: u64, st: &mut Stats) -> bool {
    let (ctor, base, flags) = racing_fd_cases()[(idx - b.lo) as usize % racing_fd_cases().len()];
    let mk = |script: Vec<crate::sup::Dec>| {
        let mut c = Case::new("C07", "racing-fd", b.uni.clone());
        let mut ops = vec![OpSpec::new(Op::Resolve { path: "wl/f".into(), nofollow: false }).store(1)];
        let handle = ctor.map(|ct| {
            ops.push(OpSpec::new(Op::ProcNew { ctor: ct, store: 0 }));
            0usize
        });
        let mut o = OpSpec::new(Op::ProcOpen { handle, base, path: format!("fd/{RACING_FD}"), flags, follow: true });
        if handle.is_none() {
            o = o.c();
        }
        ops.push(o);
        c.world = Some(warm_world());
        c.jobs = vec![ops];
        c.plan.script = script;
        c.extra = json!({"ctor": format!("{ctor:?}")});
        c
    };
    let base_case = mk(vec![]);
    let target = base_case.jobs[0].len() - 1;
    let out0 = run_case(u, &base_case, &mut crate::sup::NoHooks, false);
    if let Some(e) = &out0.harness_error {
        st.harness_errors.push(format!("racing-fd {idx}: {e}"));
        return false;
    }
    let wins: Vec<usize> = out0.trace.iter().filter(|e| e.lib && e.op == Some(target) && e.nr != crate::seam::HYPERCALL_NR && e.nr != libc::SYS_futex).map(|e| e.step).collect();
    for w in wins {
        let case = mk(vec![crate::sup::Dec { step: w, attack: vec![crate::world::Mutation::Dup3Slot { slot: 1, newfd: RACING_FD }], ..Default::default() }]);
        let out = run_case(u, &case, &mut crate::sup::NoHooks, false);
        if let Some(e) = &out.harness_error {
            st.harness_errors.push(format!("racing-fd {idx}@{w}: {e}"));
            return false;
        }
        st.evaluations += 1;
        st.merge_runout(&out);
        st.nontrivial.insert(case.hash() ^ w as u64);
        st.count("racing_fd.windows", 1);
        if let Some(r) = out.records.iter().find(|r| r.idx == target) {
            st.count(&format!("racing_fd.outcome.{}", r.outcome.class().split(':').take(3).collect::<Vec<_>>().join(":")), 1);
            let bad = match (&r.outcome, &r.facts) {
                // the call may fail (the descriptor was not there when it looked) or follow the new
                // link; what it must never do is hand out the link itself
                (Outcome::Fd(_), Some(f)) if f.ftype == libc::S_IFLNK => Some(("follow-returned-the-link-itself", format!("open_follow(\"fd/{RACING_FD}\", {flags:#o}) returned the magic-link {} itself; the descriptor appeared at step {w} of the call", f.path))),
                (Outcome::Panic(m), _) => Some(("panic", m.clone())),
                _ => None,
            };
            if let Some((clause, detail)) = bad {
                let v = mk_violation(&case, &out, "C07", clause, "proc_open_follow", detail);
                st.violation(&v);
            }
        }
        if u.poisoned {
            return false;
        }
    }
    true
}

pub fn live_cases(uni: &UniCfg, ctor: u64, tid: i32) -> Vec<Case> {
    let ents = live_entries(tid);
    let mut cases = Vec::new();
    for chunk in ents.chunks(10) {
        let mut c = Case::new("C07", "live", uni.clone());
        let (handle, mut ops, cname) = match ctor {
            0 => (None, vec![], "global"),
            1 => (Some(0), vec![OpSpec::new(Op::ProcNew { ctor: crate::ops::ProcCtor::New, store: 0 })], "new"),
            _ => (Some(0), vec![OpSpec::new(Op::ProcNew { ctor: crate::ops::ProcCtor::FromFsopen, store: 0 })], "fsopen-unmasked"),
        };
        let facade = if handle.is_none() { Facade::C } else { Facade::Rust };
        ops.push(OpSpec::new(Op::ProcOpen { handle, base: Base::Root, path: ".".into(), flags: libc::O_PATH | libc::O_DIRECTORY, follow: false }).facade(facade));
        let mut meta = Vec::new();
        for (base, p) in chunk {
            for (k, op) in [
                Op::ProcOpen { handle, base: *base, path: p.clone(), flags: libc::O_PATH, follow: false },
                Op::ProcReadlink { handle, base: *base, path: p.clone(), bufsz: 512 },
                Op::ProcOpen { handle, base: *base, path: p.clone(), flags: libc::O_PATH, follow: true },
                Op::ProcOpen { handle, base: *base, path: format!("{p}/x"), flags: libc::O_PATH, follow: false },
            ]
            .into_iter()
            .enumerate()
            {
                let _ = k;
                ops.push(OpSpec::new(op).facade(facade));
                meta.push(json!({"decorated": false}));
            }
        }
        c.world = Some(warm_world());
        c.jobs = vec![ops];
        c.extra = json!({"ctor": cname, "meta": meta});
        cases.push(c);
    }
    cases
}

pub fn gen_case(seed: u64, idx: u64, uni: &UniCfg) -> Case {
    let mut rng = Rng::new(rng::derive(seed, "C07", idx));
    let mut c = Case::new("C07", "menu", uni.clone());
    let (handle, mut ops, ctor) = procgen::ctor_ops(&mut rng);
    let facade = if handle.is_none() { Facade::C } else { Facade::Rust };
    // reference: the handle's own root (mount id)
    ops.push(OpSpec::new(Op::ProcOpen { handle, base: Base::Root, path: ".".into(), flags: libc::O_PATH | libc::O_DIRECTORY, follow: false }).facade(facade));
    let mut meta = Vec::new();
    for _ in 0..LOOKUPS {
        let base = *rng.pick(&[Base::Root, Base::SelfP, Base::ThreadSelf]);
        let m = procgen::menu(base);
        let raw = rng.pick(&m).to_string();
        let decorated = rng.chance(1, 3);
        let path = if decorated { procgen::decorate(&mut rng, &raw) } else { raw };
        let flags = procgen::gen_flags(&mut rng);
        let op = match rng.below(10) {
            0..=4 => Op::ProcOpen { handle, base, path, flags, follow: false },
            5..=7 => Op::ProcOpen { handle, base, path, flags: flags & !libc::O_NOFOLLOW, follow: true },
            _ => Op::ProcReadlink { handle, base, path, bufsz: 512 },
        };
        meta.push(json!({"decorated": decorated}));
        ops.push(OpSpec::new(op).facade(facade));
    }
    c.world = Some(warm_world());
    c.jobs = vec![ops];
    c.extra = json!({"ctor": ctor, "meta": meta});
    c
}

fn subst(p: &str, tid: i32, rfd: i32) -> String {
    p.replace("{TID}", &tid.to_string()).replace("{RFD}", &rfd.to_string())
}

/// placeholders are substituted right before the run (tids are per universe)
pub fn instantiate(case: &Case, tid: i32) -> Case {
    let mut c = case.clone();
    let rfd = 3; // the root descriptor of the (warm) world is always the lowest free one
    for o in c.jobs[0].iter_mut() {
        match &mut o.op {
            Op::ProcOpen { path, .. } | Op::ProcReadlink { path, .. } => *path = subst(path, tid, rfd),
            _ => {}
        }
    }
    c
}

fn strip_ids(p: &str) -> String {
    // a handle made from the host's /proc shows paths below "/proc", a private mount below "/"
    let p = p.strip_prefix("/proc/").map(|r| format!("/{r}")).unwrap_or_else(|| p.to_string());
    // namespace / pipe / socket ids differ between universes: "mnt:[4026532207]" -> "mnt:[N]"
    let p = {
        let mut out = String::new();
        let mut inb = false;
        for ch in p.chars() {
            match ch {
                '[' => {
                    inb = true;
                    out.push(ch);
                }
                ']' => {
                    inb = false;
                    out.push('N');
                    out.push(ch);
                }
                c if inb && c.is_ascii_digit() => {}
                c => out.push(c),
            }
        }
        out
    };
    p.split('/').map(|c| if c.len() >= 2 && c.bytes().all(|b| b.is_ascii_digit()) { "N" } else { c }).collect::<Vec<_>>().join("/")
}

pub struct H {
    /// the handle is a subset=pid / hidepid one (ProcfsHandle::new or the global handle)
    pub masked_handle: bool,
    pub handle_mnt: u64,
    pub found: Vec<(usize, String, String)>,
    pub recs: Vec<(usize, String)>,
    pub meta: Vec<Value>,
    pub first_lookup: usize,
}

fn ident(fd: i32) -> (u32, String) {
    let st = sys::fstat(fd).map(|s| s.st_mode & libc::S_IFMT).unwrap_or(0);
    (st, strip_ids(&String::from_utf8_lossy(&sys::fd_path(fd))))
}

impl Hooks for H {
    fn end_op(&mut self, ctx: &mut RunCtx, rec: &mut OpRecord) {
        let pristine = sys::PRISTINE_PROC.load(std::sync::atomic::Ordering::Relaxed);
        let tid = ctx.out.tids.get(rec.thread).copied().unwrap_or(0);
        let (base, path, flags, kind) = match &rec.spec.op {
            Op::ProcOpen { base, path, flags, follow, .. } => (*base, path.clone(), *flags, if *follow { "follow" } else { "open" }),
            Op::ProcReadlink { base, path, .. } => (*base, path.clone(), libc::O_PATH, "readlink"),
            _ => return,
        };
        if rec.idx < self.first_lookup {
            if let Some(f) = &rec.facts {
                self.handle_mnt = f.mnt_id;
            }
            return;
        }
        let mut fail = |c: &str, d: String| self.found.push((rec.idx, c.to_string(), d));
        if let Outcome::Panic(m) = &rec.outcome {
            fail("panic", m.clone());
            return;
        }
        // (0o20000000 is the raw __O_TMPFILE bit: alone the kernel rejects it; if the library adds O_DIRECTORY it becomes O_TMPFILE)
        let creation = flags & (libc::O_CREAT | libc::O_EXCL) != 0 || flags & 0o20000000 != 0;
        let prefix = procgen::base_prefix(base, tid);
        let (inner, last, dotdot) = procgen::walk_kinds(pristine, &prefix, &path);
        let decorated = self.meta.get(rec.idx - self.first_lookup).map(|m| m["decorated"].as_bool().unwrap_or(false)).unwrap_or(false);
        let errno = rec.outcome.errno();
        let ok = rec.outcome.is_ok();
        // record for the K/E comparison
        if !path.is_empty() && !dotdot && !creation {
            let r = match &rec.outcome {
                Outcome::Fd(fd) => {
                    let (t, p) = ident(*fd);
                    format!("ok type={t:o} path={p}")
                }
                Outcome::Bytes(b) => format!("ok bytes={}", strip_ids(&String::from_utf8_lossy(b))),
                Outcome::CBytes { ret, buf, .. } => format!("ok bytes={}", strip_ids(&String::from_utf8_lossy(&buf[..(*ret as usize).min(buf.len())]))),
                Outcome::Err { errno, kind, .. } => format!("err {} {}", if kind == "C" { "-" } else { kind.as_str() }, sys::errname(*errno)),
                o => o.class(),
            };
            self.recs.push((rec.idx, format!("{kind}({:?},{:?},{:#o}) => {r}", base, strip_ids(&path), flags)));
        }
        // (e) creation flags are refused (any error is a refusal)
        if creation && kind != "readlink" {
            if ok {
                fail("creation-flags-accepted", format!("{kind}({path:?}, {flags:#o}) succeeded"));
            }
            return;
        }
        // flag sets openat2 rejects outright, and absolute sub-paths, are only
        // held to the resolver comparison below (the openat2 resolver refuses both)
        if procgen::openat2_rejects(flags) || path.starts_with('/') {
            return;
        }
        // (a) magic-link / absolute symlink used as a path component
        let first_bad = inner.iter().find(|(_, k)| matches!(k, EntKind::Magic | EntKind::Missing | EntKind::File));
        if let Some((name, EntKind::Magic)) = first_bad {
            if ok {
                fail("walked-through-magic-link", format!("{kind}({path:?}) succeeded although {name:?} is a magic-link used as a component"));
            } else if !matches!(errno, Some(libc::ELOOP) | Some(libc::EXDEV)) {
                let body = sys::readlinkat(pristine, name.as_bytes()).unwrap_or_default();
                let clause = if body.starts_with(b"/") { "magic-link-component-wrong-error" } else { "magic-link-component-wrong-error:non-absolute-body" };
                fail(clause, format!("{kind}({path:?}) through {name:?} (body {:?}) failed with {:?} (ELOOP/EXDEV expected)", String::from_utf8_lossy(&body), errno.map(sys::errname)));
            }
            return;
        }
        // (f)/(b) every successful non-following result is on the handle's own procfs mount
        if let (Outcome::Fd(_), Some(f)) = (&rec.outcome, &rec.facts) {
            let followed_final = kind == "follow" && matches!(last, Some((_, EntKind::Magic)));
            if !followed_final {
                if f.fstype != sys::PROC_SUPER_MAGIC {
                    fail("left-procfs", format!("{kind}({path:?}) returned {} which is not on procfs", f.path));
                } else if self.handle_mnt != 0 && f.mnt_id != self.handle_mnt && !self.masked_handle {
                    // (a masked handle - subset=pid - documents a retry on a second, unmasked private procfs)
                    fail("left-the-handle-mount", format!("{kind}({path:?}) returned an object on mount {} but the handle is mount {}", f.mnt_id, self.handle_mnt));
                }
            }
        }
        if dotdot || first_bad.is_some() {
            return; // '..': only containment is promised; missing/non-dir component: any error
        }
        let (lname, lkind) = match last {
            Some(x) => x,
            None => return,
        };
        let trailing_slash = path.ends_with('/');
        match kind {
            "open" => {
                // (c) never follows a trailing symlink of any kind
                if matches!(lkind, EntKind::RelLink | EntKind::Magic) && !trailing_slash && !path.ends_with("/.") {
                    let opath = flags & libc::O_PATH != 0;
                    let odir = flags & libc::O_DIRECTORY != 0;
                    match (&rec.outcome, &rec.facts) {
                        (Outcome::Fd(_), Some(f)) => {
                            if f.ftype != libc::S_IFLNK {
                                fail("open-followed-trailing-link", format!("open({path:?}, {flags:#o}) returned {} (type {:o}) instead of the link itself", f.path, f.ftype));
                            } else if !opath || odir {
                                fail("open-returned-link-without-opath", format!("open({path:?}, {flags:#o}) returned the link"));
                            }
                        }
                        (Outcome::Err { errno, .. }, _) => {
                            if opath && !odir {
                                fail("open-link-opath-fails", format!("open({path:?}, O_PATH) on a link failed with {}", sys::errname(*errno)));
                            } else if !matches!(*errno, libc::ELOOP | libc::ENOTDIR) {
                                fail("open-link-wrong-error", format!("open({path:?}, {flags:#o}) on a link failed with {}", sys::errname(*errno)));
                            }
                        }
                        _ => {}
                    }
                }
            }
            "follow" => {
                // (d) follows exactly the trailing link: same object as the pristine open of that one link
                if !decorated && inner.iter().all(|(_, k)| *k == EntKind::Dir) && lkind != EntKind::Missing {
                    let pf = sys::openat(pristine, lname.as_bytes(), (flags & !libc::O_NOFOLLOW) | libc::O_NOCTTY, 0);
                    match (&rec.outcome, pf) {
                        (Outcome::Fd(fd), Ok(p)) => {
                            let (a, b) = (ident(*fd), ident(p));
                            sys::close(p);
                            if a != b {
                                fail("follow-wrong-object", format!("open_follow({path:?}) returned {a:?} but following that one link gives {b:?}"));
                            }
                        }
                        (Outcome::Err { errno, .. }, Ok(p)) => {
                            sys::close(p);
                            let clause = if self.masked_handle && *errno == libc::ENOENT { "follow-fails:masked-handle" } else { "follow-fails" };
                            fail(clause, format!("open_follow({path:?}, {flags:#o}) failed with {} but the link can be followed", sys::errname(*errno)));
                        }
                        (Outcome::Fd(fd), Err(e)) => {
                            let a = ident(*fd);
                            fail("follow-succeeds-where-kernel-fails", format!("open_follow({path:?}, {flags:#o}) returned {a:?} but a plain open of that link fails with {}", sys::errname(e)));
                        }
                        (_, Err(p)) => {
                            let _ = p;
                        }
                        _ => {}
                    }
                }
            }
            _ => {
                // readlink: the body of the link itself
                if matches!(lkind, EntKind::RelLink | EntKind::Magic) && !trailing_slash && !path.ends_with("/.") {
                    let want = sys::readlinkat(pristine, lname.as_bytes()).unwrap_or_default();
                    match &rec.outcome {
                        Outcome::Bytes(b) if strip_ids(&String::from_utf8_lossy(b)) == strip_ids(&String::from_utf8_lossy(&want)) => {}
                        Outcome::CBytes { ret, buf, guard_ok } => {
                            if !*guard_ok {
                                fail("buffer-overrun", "readlink wrote past the buffer".into());
                            }
                            let n = (*ret as usize).min(buf.len());
                            if strip_ids(&String::from_utf8_lossy(&buf[..n])) != strip_ids(&String::from_utf8_lossy(&want[..n.min(want.len())])) {
                                fail("readlink-wrong-body", format!("readlink({path:?}) = {:?}, link body is {:?}", String::from_utf8_lossy(&buf[..n]), String::from_utf8_lossy(&want)));
                            }
                        }
                        o => fail("readlink-wrong-body", format!("readlink({path:?}) = {:?}, link body is {:?}", o, String::from_utf8_lossy(&want))),
                    }
                } else if ok && matches!(lkind, EntKind::Dir | EntKind::File) {
                    fail("readlink-of-non-link-succeeds", format!("readlink({path:?}) succeeded on a non-link"));
                }
            }
        }
    }
}

pub fn eval_case(u: &mut Universe, case0: &Case, idx: u64, st: &mut Stats, sample: bool) -> bool {
    let live = case0.phase == "live" || case0.phase == "creation";
    let tid = u_tid(u);
    let case = instantiate(case0, tid);
    let first_lookup = case.jobs[0].iter().position(|o| matches!(o.op, Op::ProcOpen { .. })).unwrap_or(0) + 1;
    let masked = matches!(case.extra["ctor"].as_str(), Some("new") | Some("global"));
    let mut h = H { masked_handle: masked, handle_mnt: 0, found: Vec::new(), recs: Vec::new(), meta: case.extra["meta"].as_array().cloned().unwrap_or_default(), first_lookup };
    let out = run_case(u, &case, &mut h, false);
    if let Some(e) = &out.harness_error {
        st.harness_errors.push(format!("menu {idx}: {e}"));
        return false;
    }
    st.merge_runout(&out);
    for r in &out.records {
        if r.idx >= first_lookup {
            st.evaluations += 1;
            st.count(&format!("outcome.{}.{}", r.spec.name(), r.outcome.class().split(':').next().unwrap_or("")), 1);
            let mut hh = 0xcbf29ce484222325u64;
            sys::fnv(&mut hh, format!("{}|{}", case.uni.tag(), strip_ids(&r.spec.to_json().to_string())).as_bytes());
            st.nontrivial.insert(hh);
        }
    }
    let mut seen = std::collections::BTreeSet::new();
    for (i, clause, detail) in &h.found {
        if !seen.insert((*i, clause.clone())) {
            continue;
        }
        let mut c1 = case.clone();
        let keep: Vec<OpSpec> = case.jobs[0].iter().enumerate().filter(|(k, _)| *k < first_lookup || k == i).map(|(_, o)| o.clone()).collect();
        c1.jobs = vec![keep];
        c1.extra["meta"] = json!([case.extra["meta"][*i - first_lookup]]);
        let v = mk_violation(&c1, &out, "C07", clause, case.jobs[0][*i].name(), detail.clone());
        st.violation(&v);
    }
    if !live {
        st.records.push((idx, h.recs.iter().map(|(i, r)| format!("{i}\t{r}")).collect::<Vec<_>>().join("\n")));
    }
    if sample {
        st.sample(json!({"universe": case.uni.tag(), "ctor": case.extra["ctor"], "lookups": h.recs.iter().take(5).map(|(_, r)| r.clone()).collect::<Vec<_>>()}));
    }
    true
}

pub fn u_tid(u: &Universe) -> i32 {
    u.worker_tid(0)
}

pub fn run(u: &mut Universe, b: &Batch, st: &mut Stats) {
    if let Err(e) = warm_up(u) {
        st.harness_errors.push(format!("warm-up: {e}"));
        return;
    }
    if b.phase == "racing-fd" {
        for idx in b.lo..b.hi {
            coord::progress(idx);
            if !run_racing_fd(u, b, idx, st) {
                return;
            }
        }
        return;
    }
    if b.phase == "creation" {
        let cases = creation_cases(&b.uni, b.extra["ctor"].as_u64().unwrap_or(0));
        // nothing may appear in the caller's working directory or the world
        let before = (sys::listdir(b"/mnt/w").map(|v| v.len()).unwrap_or(0), sys::listdir(b".").map(|v| v.len()).unwrap_or(0));
        for (i, case) in cases.iter().enumerate() {
            coord::progress(b.lo);
            st.count("creation.lookups", case.extra["meta"].as_array().map(|a| a.len() as u64).unwrap_or(0));
            if !eval_case(u, case, b.lo + i as u64, st, false) || u.poisoned {
                return;
            }
        }
        let after = (sys::listdir(b"/mnt/w").map(|v| v.len()).unwrap_or(0), sys::listdir(b".").map(|v| v.len()).unwrap_or(0));
        if before != after {
            st.harness_errors.push(format!("creation phase: directory entry counts changed {before:?} -> {after:?}"));
        }
        return;
    }
    if b.phase == "live" {
        let tid = u_tid(u);
        let cases = live_cases(&b.uni, b.extra["ctor"].as_u64().unwrap_or(0), tid);
        st.count("live.entries", cases.iter().map(|c| c.extra["meta"].as_array().map(|a| a.len() / 4).unwrap_or(0) as u64).sum());
        for (i, case) in cases.iter().enumerate() {
            coord::progress(b.lo);
            if !eval_case(u, case, b.lo + i as u64, st, false) || u.poisoned {
                return;
            }
        }
        return;
    }
    for idx in b.lo..b.hi {
        coord::progress(idx);
        let case = if b.phase == "replay" {
            match Case::from_json(&b.extra["case"]) {
                Some(mut c) => {
                    if b.extra["force_uni"].as_bool() == Some(true) {
                        c.uni = b.uni.clone();
                    }
                    c
                }
                None => return,
            }
        } else {
            gen_case(b.seed, idx, &b.uni)
        };
        if !eval_case(u, &case, idx, st, idx == b.lo) {
            return;
        }
        if u.poisoned {
            return;
        }
    }
}

pub fn check(tier: &str, seed: u64, jobs: usize) -> i32 {
    let (kb, eb): (Vec<Batch>, Vec<Batch>) = plan(tier, seed).into_iter().partition(|b| !b.uni.no_openat2);
    let rk = coord::run_batches(kb, jobs);
    let re = coord::run_batches(eb, jobs);
    let mut res = coord::CheckResult { stats: Stats::default(), died: Vec::new(), wall_s: rk.wall_s + re.wall_s };
    let km: std::collections::BTreeMap<u64, String> = rk.stats.records.iter().cloned().collect();
    let em: std::collections::BTreeMap<u64, String> = re.stats.records.iter().cloned().collect();
    let mut compared = 0u64;
    let mut differing = 0u64;
    for (idx, kr) in &km {
        let er = match em.get(idx) {
            Some(e) => e,
            None => continue,
        };
        let kl: std::collections::BTreeMap<&str, &str> = kr.lines().filter_map(|l| l.split_once('\t')).collect();
        let el: std::collections::BTreeMap<&str, &str> = er.lines().filter_map(|l| l.split_once('\t')).collect();
        for (i, kline) in &kl {
            if let Some(eline) = el.get(i) {
                compared += 1;
                if kline != eline {
                    differing += 1;
                    let case = gen_case(seed, *idx, &UniCfg::k());
                    let oi: usize = i.parse().unwrap_or(0);
                    let first_lookup = case.jobs[0].iter().position(|o| matches!(o.op, Op::ProcOpen { .. })).unwrap_or(0) + 1;
                    let mut c1 = case.clone();
                    c1.jobs = vec![case.jobs[0].iter().enumerate().filter(|(k, _)| *k < first_lookup || *k == oi).map(|(_, o)| o.clone()).collect()];
                    let opname = case.jobs[0].get(oi).map(|o| o.name()).unwrap_or("op");
                    let mut v = c1.to_json();
                    v["universe"] = json!({"twin": ["K", "E"], "openat2": "both"});
                    let kres = kline.split(" => ").nth(1).unwrap_or("");
                    let eres = eline.split(" => ").nth(1).unwrap_or("");
                    let fl = match case.jobs[0].get(oi).map(|o| &o.op) {
                        Some(Op::ProcOpen { flags, .. }) => *flags,
                        _ => libc::O_PATH,
                    };
                    let pth = match case.jobs[0].get(oi).map(|o| &o.op) {
                        Some(Op::ProcOpen { path, .. }) | Some(Op::ProcReadlink { path, .. }) => path.clone(),
                        _ => String::new(),
                    };
                    let class = if procgen::openat2_rejects(fl) && kres.contains("EINVAL") {
                        "resolvers-differ:flag-validation"
                    } else if pth.starts_with('/') && kres.contains("EXDEV") {
                        "resolvers-differ:absolute-subpath"
                    } else if kres.contains("ELOOP") && eres.contains("ENOENT") {
                        "resolvers-differ:non-absolute-magic-link-component"
                    } else {
                        "resolvers-differ"
                    };
                    v["expect"] = json!({"violation": true, "signature": format!("C07/{class}/{opname}"),
                        "detail": format!("{} : openat2 resolver => {kres} || emulated resolver => {eres}", kline.split(" => ").next().unwrap_or(""))});
                    res.stats.violations.push(v);
                }
            }
        }
    }
    for r in [&rk, &re] {
        res.stats.evaluations += r.stats.evaluations;
        res.stats.steps += r.stats.steps;
        for (k, v) in &r.stats.counters {
            res.stats.count(k, *v);
        }
        res.stats.violations.extend(r.stats.violations.iter().cloned());
        res.stats.harness_errors.extend(r.stats.harness_errors.iter().cloned());
        res.died.extend(r.died.iter().cloned());
        res.stats.nontrivial.extend(r.stats.nontrivial.iter());
        for s in &r.stats.samples {
            res.stats.sample(s.clone());
        }
    }
    res.stats.interleavings.insert(0);
    let mut extra = Map::new();
    extra.insert("resolver_pairs_compared".into(), json!(compared));
    extra.insert("resolver_pairs_differing".into(), json!(differing));
    coord::finalise(
        "C07",
        tier,
        seed,
        "exploration",
        "one evaluation = one procfs lookup (open, open_follow or readlink; through ProcfsHandle::new, try_from_fd on fsopen / recursive open_tree / plain open handles, or the global handle of the C API; bases root/self/thread-self) with a sub-path drawn from a menu of live procfs entries, magic-links, breakout shapes (self/root/..., self/cwd/..., fd/N/..., exe/.., '..') and decorations ('.', '..', '', trailing '/'), and a flag set from {O_PATH, access modes, O_DIRECTORY, O_NOFOLLOW, O_CREAT, O_EXCL, O_TMPFILE, ...}; each entry is classified (directory, file, in-procfs link, magic-link) by asking the harness's own pristine procfs; oracles: magic-link as a component fails with ELOOP/EXDEV; successful non-following results are procfs objects on the handle's mount; open/readlink never follow the trailing link; open_follow equals following that one link; creation flags give InvalidArgument (enumerated matrix incl. the raw __O_TMPFILE bit, nothing may be created); every entry of the live procfs is looked up (open / readlink / follow / as a directory component); racing-descriptor phase: fd/N does not exist when open_follow starts and appears at every window of the call - the result is never the magic-link itself; the same seeds run with the openat2 and the emulated procfs resolver and every lookup with a non-empty sub-path without '..' is compared; non-trivial and distinct = distinct (universe, operation, base, path, flags) with ids normalised",
        res,
        extra,
        vec!["quiescent: nothing is mounted or unmounted during these lookups (that is C06)".into()],
        false,
        &|b, run| Some(gen_case(b.seed, run, &b.uni)),
    )
    .exit_code
}
