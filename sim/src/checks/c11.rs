//! C11 - calls leave the descriptor table unchanged except for the returned fd.
use super::mixed;
use super::*;
use crate::case::{mk_violation, Case};
use crate::coord::{self, Batch, Stats};
use crate::ops::{Op, Outcome};
use crate::sup::{FdTable, RunOut};
use serde_json::{json, Map, Value};

pub const PER_BATCH: u64 = 330;

pub fn plan(tier: &str, seed: u64) -> Vec<Batch> {
    let n = match tier {
        "thorough" => 400,
        "dev" => 1,
        _ => 40,
    };
    let mut v = Vec::new();
    for uni in [UniCfg::k(), UniCfg::e()] {
        for i in 0..n {
            v.push(Batch { check: "C11".into(), phase: "mixed".into(), uni: uni.clone().workers(4), seed, lo: i * PER_BATCH, hi: (i + 1) * PER_BATCH, fresh: false, tier: tier.into(), extra: Value::Null });
        }
        v.push(Batch { check: "C11".into(), phase: "first-use".into(), uni: uni.clone().workers(4), seed, lo: 0, hi: if tier == "thorough" { 120 } else { 24 }, fresh: true, tier: tier.into(), extra: Value::Null });
    }
    for (ma, tag) in [(crate::sup::MountApi::Enosys, 0u64), (crate::sup::MountApi::Eperm, 1), (crate::sup::MountApi::NoFsopen, 2)] {
        let mut uni = UniCfg::k().workers(4);
        uni.mount_api = ma;
        v.push(Batch { check: "C11".into(), phase: "first-use".into(), uni, seed, lo: 1000 + tag * 100, hi: 1000 + tag * 100 + 12, fresh: true, tier: tier.into(), extra: Value::Null });
    }
    v
}

fn entry(t: &FdTable, fd: i32) -> Option<&(i32, u64, u64, i32, i32)> {
    t.iter().find(|e| e.0 == fd)
}

pub fn eval(case: &Case, out: &RunOut, st: &mut Stats) {
    let single = case.jobs.iter().filter(|j| !j.is_empty()).count() == 1;
    let mut seen = std::collections::BTreeSet::new();
    let mut report = |st: &mut Stats, clause: &str, op: &str, detail: String| {
        if seen.insert((clause.to_string(), op.to_string())) {
            let v = mk_violation(case, out, "C11", clause, op, detail);
            st.violation(&v);
        }
    };
    for r in &out.records {
        if !r.spec.is_lib_call() {
            continue;
        }
        st.evaluations += 1;
        let err_path = !r.outcome.is_ok();
        st.count(if err_path { "ops.error_path" } else { "ops.success_path" }, 1);
        let mut h = 0xcbf29ce484222325u64;
        sys::fnv(&mut h, format!("{}|{}|{}|{}", r.spec.name(), r.outcome.class(), case.uni.tag(), r.faults_inside + r.attacks_inside).as_bytes());
        if r.end_step - r.begin_step > 1 {
            st.nontrivial.insert(h ^ case.hash());
        }
        // returned descriptor is close-on-exec
        if let (Outcome::Fd(_), Some(f)) = (&r.outcome, &r.facts) {
            if f.getfd & libc::FD_CLOEXEC == 0 {
                report(st, "returned-fd-not-cloexec", r.spec.name(), format!("{} returned a descriptor without FD_CLOEXEC", r.spec.name()));
            }
        }
        // lent descriptors: still open, same object, same status flags
        let mut lent = vec![crate::ops::slot(r.spec.root)];
        if let Op::Reopen { slot, .. } = &r.spec.op {
            lent.push(crate::ops::slot(*slot));
        }
        for fd in lent {
            if fd < 0 {
                continue;
            }
            if let Some(b) = entry(&r.fds_before, fd) {
                match entry(&r.fds_after, fd) {
                    None => report(st, "lent-descriptor-closed", r.spec.name(), format!("descriptor {fd} lent to {} is closed afterwards", r.spec.name())),
                    Some(a) => {
                        if (a.1, a.2) != (b.1, b.2) {
                            report(st, "lent-descriptor-changed", r.spec.name(), format!("descriptor {fd} refers to another object after {}", r.spec.name()));
                        } else if a.4 != b.4 || a.3 != b.3 {
                            report(st, "lent-descriptor-flags-changed", r.spec.name(), format!("descriptor {fd} flags changed: F_GETFL {:#o}->{:#o}, F_GETFD {}->{}", b.4, a.4, b.3, a.3));
                        }
                    }
                }
            }
        }
        if !single {
            continue; // per-op tables overlap other threads' in-flight calls
        }
        let mut expect: Vec<i32> = r.fds_before.iter().map(|e| e.0).collect();
        if let Outcome::Fd(fd) = r.outcome {
            expect.push(fd);
        }
        let keeps_handle = matches!(r.spec.op, Op::ProcNew { .. }) && r.outcome.is_ok();
        let extra: Vec<i32> = r.fds_after.iter().map(|e| e.0).filter(|fd| !expect.contains(fd)).collect();
        let missing: Vec<i32> = expect.iter().copied().filter(|fd| entry(&r.fds_after, *fd).is_none()).collect();
        // first use: exactly one process-lifetime procfs root may appear
        let persistent: Vec<i32> = out.new_persistent_fds.iter().map(|e| e.0).collect();
        let extra: Vec<i32> = extra.into_iter().filter(|fd| !(case.fresh && persistent.contains(fd))).collect();
        if keeps_handle {
            if extra.len() > 1 {
                report(st, "descriptors-left-open", r.spec.name(), format!("constructing a procfs handle left {} descriptors open", extra.len()));
            }
        } else if !extra.is_empty() {
            report(st, "descriptors-left-open", r.spec.name(), format!("after {} ({}): descriptors {:?} are still open", r.spec.name(), r.outcome.class(), extra));
        }
        if !missing.is_empty() {
            report(st, "descriptors-closed", r.spec.name(), format!("after {} ({}): descriptors {:?} that were open before are closed", r.spec.name(), r.outcome.class(), missing));
        }
    }
    // run level (covers concurrent runs): nothing survives the run
    if !out.leaked_fds.is_empty() {
        report(st, "descriptors-left-open", "run", format!("descriptors {:?} survive after all calls returned and all results were closed", out.leaked_fds.iter().map(|e| e.0).collect::<Vec<_>>()));
    }
    if case.fresh {
        if out.new_persistent_fds.len() > 1 {
            report(st, "more-than-one-internal-handle", "run", format!("{} process-lifetime procfs descriptors appeared", out.new_persistent_fds.len()));
        }
        for e in &out.new_persistent_fds {
            if e.3 & libc::FD_CLOEXEC == 0 {
                report(st, "internal-handle-not-cloexec", "run", "the process-lifetime procfs descriptor is not close-on-exec".into());
            }
        }
        st.count("first_use.internal_handles", out.new_persistent_fds.len() as u64);
    } else if !out.new_persistent_fds.is_empty() {
        report(st, "late-internal-handle", "run", "a second process-lifetime procfs descriptor appeared after warm-up".into());
    }
}

pub fn run(u: &mut Universe, b: &Batch, st: &mut Stats) {
    if !b.fresh {
        if let Err(e) = warm_up(u) {
            st.harness_errors.push(format!("warm-up: {e}"));
            return;
        }
    }
    for idx in b.lo..b.hi {
        coord::progress(idx);
        let case = match b.phase.as_str() {
            "replay" => match Case::from_json(&b.extra["case"]) {
                Some(c) => c,
                None => return,
            },
            "first-use" => {
                let mut c = super::c05::first_use_case(b.seed, idx, &b.uni);
                c.check = "C11".into();
                c
            }
            _ => mixed::mixed_case(b.seed, idx, &b.uni, "C11"),
        };
        let out = match super::c05::run_one(u, &case, st) {
            Some(o) => o,
            None => return,
        };
        eval(&case, &out, st);
        if idx == b.lo {
            st.sample(json!({"universe": b.uni.tag(), "slice": case.extra["kind"], "ops": case.jobs.iter().map(|j| j.iter().map(|o| o.name()).collect::<Vec<_>>()).collect::<Vec<_>>(),
                "tables": out.records.iter().take(3).map(|r| json!({"op": r.spec.name(), "outcome": r.outcome.class(), "before": r.fds_before.iter().map(|e| e.0).collect::<Vec<_>>(), "after": r.fds_after.iter().map(|e| e.0).collect::<Vec<_>>()})).collect::<Vec<_>>()}));
        }
        if u.poisoned {
            return;
        }
    }
}

pub fn finalise(tier: &str, seed: u64, res: coord::CheckResult) -> i32 {
    let mut extra = Map::new();
    let slices: Map<String, Value> = res.stats.counters.iter().filter(|(k, _)| k.starts_with("slice.")).map(|(k, v)| (k[6..].to_string(), json!(v))).collect();
    extra.insert("workload_slices".into(), Value::Object(slices));
    coord::finalise(
        "C11",
        tier,
        seed,
        "exploration",
        "one evaluation = one libpathrs call (Rust or C facade) around which the process descriptor table (number, st_dev, st_ino, F_GETFD, F_GETFL of every descriptor below 200) is listed at BEGIN_OP and END_OP: after = before + the returned descriptor; the returned descriptor is close-on-exec; lent descriptors (root, handle) are still open, same object, same flags; after a run nothing survives; first-use runs: exactly one close-on-exec procfs root appears and none later; workload = the mixed slices of C05 (quiescent, attacked, faulted with 2-10% random faults, concurrent, procfs, C invalid arguments, reopen) in K and E universes; non-trivial = a call that made at least one trapped system call; distinct = hash of (case, op, outcome class, faults+attacks inside)",
        res,
        extra,
        vec!["in concurrent runs the per-call table comparison is replaced by the run-level one (tables overlap other threads' in-flight calls)".into()],
        false,
        &|b, run| match b.phase.as_str() {
            "first-use" => Some(super::c05::first_use_case(b.seed, run, &b.uni)),
            _ => Some(mixed::mixed_case(b.seed, run, &b.uni, "C11")),
        },
    )
    .exit_code
}
