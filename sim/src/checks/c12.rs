//! C12 - mkdir_all creates exactly the missing directories and converges
//! under races.
use super::*;
use crate::case::{mk_violation, Case};
use crate::coord::{self, Batch, Stats};
use crate::gen;
use crate::ops::{Facade, Op, OpSpec, Outcome};
use crate::rng::{self, Rng};
use crate::sup::{Dec, Hooks, OpRecord, Plan, RunCtx, RunOut, Seeded};
use crate::world::{Entry, WorldSpec};
use serde_json::{json, Map, Value};

pub const PER_BATCH: u64 = 300;

pub fn plan(tier: &str, seed: u64) -> Vec<Batch> {
    let (seq, conc, enum2) = match tier {
        "thorough" => (400, 400, true),
        "dev" => (1, 1, false),
        _ => (40, 40, false),
    };
    let mut v = Vec::new();
    for uni in [UniCfg::k(), UniCfg::e()] {
        for i in 0..seq {
            v.push(Batch { check: "C12".into(), phase: "sequential".into(), uni: uni.clone(), seed, lo: i * PER_BATCH, hi: (i + 1) * PER_BATCH, fresh: false, tier: tier.into(), extra: Value::Null });
        }
        for i in 0..conc {
            if i == 0 {
                for sc in 0..fault_scenarios().len() as u64 {
                    v.push(Batch { check: "C12".into(), phase: "fault-enum".into(), uni: uni.clone(), seed, lo: sc, hi: sc + 1, fresh: false, tier: tier.into(), extra: Value::Null });
                }
            }
            v.push(Batch { check: "C12".into(), phase: "concurrent".into(), uni: uni.clone().workers(4), seed, lo: i * PER_BATCH, hi: (i + 1) * PER_BATCH, fresh: false, tier: tier.into(), extra: Value::Null });
        }
        // bounded-preemption enumeration on the canonical scenarios
        for sc in 0..conc_scenarios().len() as u64 {
            let shards = if uni.no_openat2 { 8 } else { 2 };
            for sh in 0..shards {
                v.push(Batch {
                    check: "C12".into(),
                    phase: "preempt".into(),
                    uni: uni.clone().workers(2),
                    seed,
                    lo: sc,
                    hi: sc + 1,
                    fresh: false,
                    tier: tier.into(),
                    extra: json!({"shard": sh, "shards": shards, "two": enum2 && !uni.no_openat2}),
                });
            }
        }
    }
    v
}

pub fn conc_scenarios() -> Vec<(WorldSpec, Vec<Vec<OpSpec>>)> {
    let mk = |p: &str| OpSpec::new(Op::MkdirAll { path: p.into(), mode: 0o755 });
    let mut empty = WorldSpec::default();
    empty.push(Entry::dir("root"));
    empty.push(Entry::file("secret", "S"));
    let mut pre = empty.clone();
    pre.push(Entry::dir("root/x"));
    pre.push(Entry::link("root/lx", "x"));
    vec![
        (empty.clone(), vec![vec![mk("x/y/z")], vec![mk("x/y/z")]]),
        (empty.clone(), vec![vec![mk("x/y")], vec![mk("x/y/z/w")]]),
        (pre.clone(), vec![vec![mk("lx/y/z")], vec![mk("x/y/z").c()]]),
        (empty.clone(), vec![vec![mk("a/b")], vec![mk("c/d")]]),
        // '..' behind a component that another call creates meanwhile: "a/../../x" may fail (a is
        // missing, '..' in the missing tail is refused) or create x *inside* the root (a exists:
        // a/.. is the root, ../x is clamped) - never anything next to the root
        (empty.clone(), vec![vec![mk("a/../../x")], vec![mk("a")]]),
        (empty, vec![vec![mk("a/../../x/y").c()], vec![mk("a")]]),
    ]
}

fn comps(path: &str) -> Vec<&str> {
    path.split('/').collect()
}

/// What the tree says *before* the call, asked of the kernel:
/// (label path of the deepest existing directory, remaining components) or
/// None when the call must fail.
pub fn expectation(rootfd: i32, ctx: &RunCtx, path: &str, nosym: bool) -> Result<(String, Vec<String>), String> {
    let cs = comps(path);
    let n = cs.len();
    let mut k = n;
    loop {
        let prefix = if k == 0 { ".".to_string() } else { cs[..k].join("/") };
        let prefix = if prefix.is_empty() { "/".to_string() } else { prefix };
        match kernel_lookup(rootfd, &prefix, false, nosym) {
            KRes::Obj { ino, ftype } => {
                if ftype != libc::S_IFDIR {
                    return Err(format!("prefix {prefix:?} is not a directory"));
                }
                // where that directory is *now* (quiescent tree: path of a fresh O_PATH descriptor)
                let _ = (ino, ctx);
                let label = {
                    let fd = sys::openat2(rootfd, prefix.as_bytes(), libc::O_PATH as u64, 0, sys::RESOLVE_IN_ROOT | sys::RESOLVE_NO_MAGICLINKS | if nosym { sys::RESOLVE_NO_SYMLINKS } else { 0 })
                        .map_err(|e| format!("re-open prefix: {e}"))?;
                    let p = String::from_utf8_lossy(&sys::fd_path(fd)).into_owned();
                    sys::close(fd);
                    p.strip_prefix("/mnt/w/").map(|x| x.to_string()).ok_or_else(|| format!("prefix path {p:?} not in the world"))?
                };
                let rest: Vec<String> = cs[k..].iter().filter(|c| !c.is_empty() && **c != ".").map(|c| c.to_string()).collect();
                if rest.iter().any(|c| c == "..") {
                    return Err("remaining components contain '..'".into());
                }
                if let Some(first) = rest.first() {
                    // the next component must really be absent (a dangling
                    // symlink or a non-directory in the way is an error)
                    let probe = if k == 0 { first.clone() } else { format!("{}/{first}", cs[..k].join("/")) };
                    if let KRes::Obj { .. } = kernel_lookup(rootfd, &probe, true, nosym) {
                        return Err(format!("component {probe:?} exists but does not resolve to a directory"));
                    }
                    if first.len() > 255 {
                        return Err("name too long".into());
                    }
                }
                if rest.iter().any(|c| c.len() > 255) {
                    return Err("name too long".into());
                }
                return Ok((label, rest));
            }
            KRes::Err(e) => {
                if k == 0 {
                    return Err(format!("root does not resolve: {}", sys::errname(e)));
                }
                if e != libc::ENOENT {
                    return Err(format!("prefix {prefix:?} fails with {}", sys::errname(e)));
                }
                k -= 1;
            }
        }
    }
}

pub struct H {
    pub umask: u32,
    pub kernel_backend: bool,
    pub pre: Vec<String>,
    pub expect: Vec<Option<Result<(String, Vec<String>), String>>>,
    pub found: Vec<(usize, String, String)>,
    pub parent_setgid: bool,
}

fn strip_root(l: &str) -> &str {
    l
}

impl Hooks for H {
    fn begin_op(&mut self, ctx: &mut RunCtx, _t: usize, k: usize, spec: &OpSpec) {
        if let Op::MkdirAll { path, .. } = &spec.op {
            let rootfd = crate::ops::slot(spec.root);
            self.pre = ctx.world.full_snapshot("");
            while self.expect.len() <= k {
                self.expect.push(None);
            }
            self.expect[k] = Some(expectation(rootfd, ctx, path, spec.no_symlinks));
        }
    }
    fn end_op(&mut self, ctx: &mut RunCtx, rec: &mut OpRecord) {
        let (path, mode) = match &rec.spec.op {
            Op::MkdirAll { path, mode } => (path.clone(), *mode),
            _ => return,
        };
        let rootfd = crate::ops::slot(rec.spec.root);
        let post = ctx.world.full_snapshot("");
        let added: Vec<&String> = post.iter().filter(|l| !self.pre.contains(l)).collect();
        let removed: Vec<&String> = self.pre.iter().filter(|l| !post.contains(l)).collect();
        let exp = self.expect.get(rec.idx).cloned().flatten();
        let bad_mode = mode & !0o1777 != 0;
        let links = links_followed(ctx.out, rec);
        let kb = self.kernel_backend;
        let why_all = format!("{exp:?}");
        let ridx = rec.idx;
        let mut fail = |c: &str, d: String| {
            let probe = format!("{d} {why_all}");
            if let Some(c2) = eloop_triage(c, &probe, kb, links) {
                self.found.push((ridx, c2, d))
            }
        };
        // documented divergence: the emulated resolver's symlink budget is
        // larger than the kernel's; everything else about such a call follows from it
        if let (Some(Err(why)), true) = (&exp, rec.outcome.is_ok()) {
            let links = ctx.out.trace.iter().filter(|e| e.step >= rec.begin_step && e.nr == libc::SYS_readlinkat && matches!(e.dir.as_ref().map(|d| &d.prov), Some(crate::sup::Prov::Tree(..)) | Some(crate::sup::Prov::TreeUnknown))).count();
            if why.contains("ELOOP") && links > 40 && links < 128 {
                fail("symlink-budget-differs", format!("mkdir_all({path:?}) returned a handle although {why} ({links} links followed)"));
                return;
            }
        }
        if !removed.is_empty() {
            fail("something-removed-or-modified", format!("mkdir_all({path:?}) removed/modified: {:?}", removed.iter().take(4).collect::<Vec<_>>()));
        }
        // expected chain
        let chain: Vec<String> = match &exp {
            Some(Ok((label, rest))) => {
                let mut acc = label.clone();
                rest.iter()
                    .map(|c| {
                        acc = if acc.is_empty() { c.clone() } else { format!("{acc}/{c}") };
                        acc.clone()
                    })
                    .collect()
            }
            _ => Vec::new(),
        };
        match &rec.outcome {
            Outcome::Fd(_) => {
                match &exp {
                    Some(Ok(_)) if !bad_mode => {}
                    Some(Err(why)) if why.contains("ELOOP") && !ctx.out.trace.is_empty() && ctx.out.trace.iter().filter(|e| e.step >= rec.begin_step && e.nr == libc::SYS_readlinkat && matches!(e.dir.as_ref().map(|d| &d.prov), Some(crate::sup::Prov::Tree(..)) | Some(crate::sup::Prov::TreeUnknown))).count() > 40 => {
                        fail("symlink-budget-differs", format!("mkdir_all({path:?}) returned a handle although {why}"))
                    }
                    Some(Err(why)) => fail("succeeds-where-it-must-fail", format!("mkdir_all({path:?}) returned a handle although {why}")),
                    _ if bad_mode => fail("bad-mode-accepted", format!("mode {mode:o} accepted")),
                    _ => {}
                }
                // exactly the missing directories, with the requested mode
                let want_mode = mode & !self.umask & 0o1777;
                // setgid inheritance: a directory created below a setgid directory gets the bit
                let parent_sgid = match &exp {
                    Some(Ok((label, _))) => self
                        .pre
                        .iter()
                        .find(|l| l.starts_with(&format!("D {label} mode=")))
                        .and_then(|l| l.split("mode=").nth(1))
                        .and_then(|x| x.split(' ').next())
                        .and_then(|x| u32::from_str_radix(x, 8).ok())
                        .map(|m| m & 0o2000 != 0)
                        .unwrap_or(false),
                    _ => false,
                };
                let mut want: Vec<String> = Vec::new();
                for c in &chain {
                    want.push(format!("D {c} mode="));
                }
                for a in &added {
                    let ok = chain.iter().any(|c| a.starts_with(&format!("D {c} mode=")));
                    if !ok {
                        fail("unexpected-addition", format!("mkdir_all({path:?}) added {a:?}, expected only {chain:?}"));
                    } else {
                        // mode / ownership
                        let m = a.split("mode=").nth(1).and_then(|x| x.split(' ').next()).and_then(|x| u32::from_str_radix(x, 8).ok()).unwrap_or(0);
                        let want = if parent_sgid { want_mode | 0o2000 } else { want_mode };
                        if m != want {
                            fail("wrong-mode", format!("created {a:?} but requested mode {mode:o} with umask {:o}{} gives {want:o}", self.umask, if parent_sgid { " below a setgid directory" } else { "" }));
                        }
                    }
                }
                for c in &chain {
                    if !post.iter().any(|l| l.starts_with(&format!("D {c} mode="))) {
                        fail("component-missing-after-success", format!("mkdir_all({path:?}) succeeded but {c:?} does not exist"));
                    }
                }
                // the handle is the in-root resolution of the path now
                if let Some(f) = &rec.facts {
                    let lp = if path.is_empty() { ".".to_string() } else { path.clone() };
                    match kernel_lookup(rootfd, &lp, false, rec.spec.no_symlinks) {
                        KRes::Obj { ino, ftype } => {
                            if ino != f.ino || ftype != libc::S_IFDIR {
                                fail("handle-is-not-the-path", format!("handle {:?} but the path resolves to {:?}", f.path, ctx.world.lookup(ino).map(|l| l.name.clone())));
                            }
                        }
                        KRes::Err(libc::ELOOP) if ctx.out.trace.iter().filter(|e| e.step >= rec.begin_step && e.nr == libc::SYS_readlinkat && matches!(e.dir.as_ref().map(|d| &d.prov), Some(crate::sup::Prov::Tree(..)) | Some(crate::sup::Prov::TreeUnknown))).count() > 40 => {
                            fail("symlink-budget-differs", format!("mkdir_all({path:?}) succeeded but the kernel gives ELOOP for the path"))
                        }
                        KRes::Err(e) => fail("path-does-not-resolve-after-success", format!("mkdir_all({path:?}) succeeded but the path now gives {}", sys::errname(e))),
                    }
                    if f.getfl & libc::O_DIRECTORY == 0 && f.ftype != libc::S_IFDIR {
                        fail("handle-not-directory", "returned handle is not a directory".into());
                    }
                }
            }
            Outcome::Err { .. } => {
                if let Some(Ok((label, rest))) = &exp {
                    // a call that fails under an injected fault is an acceptable error (fault-enum phase)
                    if !bad_mode && rec.faults_inside == 0 {
                        fail("fails-where-it-must-succeed", format!("mkdir_all({path:?}) failed ({}) although {label:?} exists and {rest:?} are creatable", rec.outcome.class()));
                    }
                }
                // nothing outside the prefix of the requested path
                for a in &added {
                    let ok = chain.iter().any(|c| a.starts_with(&format!("D {c} mode=")));
                    if !ok && exp.as_ref().map(|e| e.is_ok()).unwrap_or(false) {
                        fail("failure-created-outside-prefix", format!("failed mkdir_all({path:?}) added {a:?}"));
                    }
                    if exp.as_ref().map(|e| e.is_err()).unwrap_or(true) {
                        // expected failure: additions are only tolerated along the lexical path
                        let lexical_ok = a.starts_with("D root");
                        if !lexical_ok {
                            fail("failure-created-outside-root", format!("failed mkdir_all({path:?}) added {a:?}"));
                        }
                    }
                }
            }
            Outcome::Panic(m) => fail("panic", m.clone()),
            _ => {}
        }
        let _ = strip_root;
    }
}

/// fixed world and calls for the fault enumeration: every (system call of the call, errno of its
/// catalogue); a failed call may have created a prefix of the missing chain and nothing else, a call
/// that reports success has created all of it
pub fn fault_world() -> WorldSpec {
    let mut w = WorldSpec::default();
    w.push(crate::world::Entry::dir("root"));
    w.push(crate::world::Entry::file("root/a/f", "F"));
    w.push(crate::world::Entry::dir("root/a/sub"));
    w.push(crate::world::Entry::link("root/l", "a"));
    w.push(crate::world::Entry::link("root/esc", "/mnt/w/outside"));
    w.push(crate::world::Entry::file("outside/secret", "OUTSIDE-SECRET"));
    w
}

pub fn fault_scenarios() -> Vec<OpSpec> {
    let o = |p: &str, mode: u32| OpSpec::new(Op::MkdirAll { path: p.to_string(), mode });
    let mut nosym = o("a/q/r", 0o755);
    nosym.no_symlinks = true;
    vec![
        o("a/b/c/d", 0o755),
        o("l/x/y", 0o700),
        o("a/../a/n1/n2", 0o711),
        o("n/m", 0o755).c(),
        o("a/sub/t", 0o1777),
        o("a/sub", 0o755),
        o("a/f/x", 0o755),
        o("/abs/p/q", 0o750),
        o("esc/e1/e2", 0o755),
        o("l/x/y", 0o700).c(),
        nosym,
    ]
}

fn run_fault_enum(u: &mut Universe, b: &Batch, idx: u64, st: &mut Stats) -> bool {
    let op = fault_scenarios()[idx as usize].clone();
    let mk = |script: Vec<Dec>| {
        let mut c = Case::new("C12", "fault-enum", b.uni.clone());
        c.world = Some(fault_world());
        c.jobs = vec![vec![op.clone()]];
        c.plan.script = script;
        c.umask = 0o022;
        c
    };
    let out0 = run_case(u, &mk(vec![]), &mut crate::sup::NoHooks, false);
    if let Some(e) = &out0.harness_error {
        st.harness_errors.push(format!("fault-enum {idx}: {e}"));
        return false;
    }
    let sites: Vec<(usize, i64)> = out0.trace.iter().filter(|e| e.lib && e.op == Some(0) && e.nr != crate::seam::HYPERCALL_NR && e.nr != libc::SYS_futex).map(|e| (e.step, e.nr)).collect();
    for (step, nr) in sites {
        for f in crate::sup::fault_catalogue(nr) {
            let case = mk(vec![Dec { step, fault: Some(f), ..Default::default() }]);
            if !run_seq(u, &case, st, false) || u.poisoned {
                return false;
            }
            st.count("fault_enum.placements", 1);
        }
    }
    true
}

pub fn gen_seq_case(seed: u64, idx: u64, uni: &UniCfg) -> Case {
    let mut rng = Rng::new(rng::derive(seed, "C12-seq", idx));
    let mut wp = gen::WorldParams::swarm(&mut rng);
    wp.decoys = rng.chance(1, 2);
    let world = gen::gen_world(&mut rng, &wp);
    let mut c = Case::new("C12", "sequential", uni.clone());
    let n = 4;
    let ops: Vec<OpSpec> = (0..n)
        .map(|_| {
            let base = if rng.chance(2, 3) { gen::gen_path(&mut rng, &world, wp.alphabet) } else { gen::gen_new_path(&mut rng, &world, wp.alphabet) };
            let extra = rng.below(4);
            let mut p = base;
            for i in 0..extra {
                let tok = match rng.below(10) {
                    0 => "..".to_string(),
                    1 => ".".to_string(),
                    2 => String::new(),
                    _ => format!("n{i}{}", rng.below(3)),
                };
                p = if p.is_empty() { tok } else { format!("{p}/{tok}") };
            }
            let mode = *rng.pick(&[0o755u32, 0o755, 0o700, 0o711, 0o1777, 0o777, 0o555, 0o500, 0o000, 0o1555, 0o444, 0o311, 0o2755, 0o4755, 0o10755]);
            let mut s = OpSpec::new(Op::MkdirAll { path: p, mode });
            if rng.chance(1, 3) {
                s.facade = Facade::C;
            } else if rng.chance(1, 5) {
                s.no_symlinks = true;
            }
            s
        })
        .collect();
    c.world = Some(world);
    c.jobs = vec![ops];
    c.umask = *rng.pick(&[0o022u32, 0o022, 0, 0o077, 0o027, 0o777]);
    c
}

pub fn gen_conc_case(seed: u64, idx: u64, uni: &UniCfg) -> Case {
    let mut rng = Rng::new(rng::derive(seed, "C12-conc", idx));
    let mut c = Case::new("C12", "concurrent", uni.clone());
    let mut w = WorldSpec::default();
    w.push(Entry::dir("root"));
    w.push(Entry::file("secret", "S"));
    if rng.chance(1, 2) {
        w.push(Entry::dir("root/x"));
        w.push(Entry::link("root/lx", "x"));
    }
    if rng.chance(1, 3) {
        w.push(Entry::dir("root/x/y"));
    }
    let nthreads = rng.range(2, 4) as usize;
    let menu = ["x/y/z", "x/y", "x/y/z/w", "lx/y/z", "x", "x/y/../y/z", "a/b", "x//y/./z", "/x/y/z", "x/q"];
    let base = *rng.pick(&menu);
    let mut jobs = Vec::new();
    for _ in 0..nthreads {
        let p = if rng.chance(1, 2) { base } else { *rng.pick(&menu) };
        // '..' is only legal in the existing part: keep such paths out unless x/y exists
        let p = if p.contains("..") && !w.has("root/x/y") { "x/y/z" } else { p };
        let mut s = OpSpec::new(Op::MkdirAll { path: p.to_string(), mode: 0o755 });
        if rng.chance(1, 3) {
            s.facade = Facade::C;
        }
        jobs.push(vec![s]);
    }
    c.world = Some(w);
    c.jobs = jobs;
    let pct = if rng.chance(1, 2) { rng.range(1, 3) as usize } else { 0 };
    c.plan = Plan { seeded: Some(Seeded { seed: rng.next(), p_switch: *rng.pick(&[50u64, 150, 300, 500]), p_attack: 0, p_fault: 0, max_attacks: 0, pct_depth: pct }), ..Default::default() };
    c
}

/// Oracle of the concurrent phase: every call succeeds, handles for the same
/// path are the same directory, the final tree is the initial one plus the
/// requested chains.
pub fn conc_oracle(case: &Case, out: &RunOut, pre: &[String], post: &[String]) -> Vec<(String, String)> {
    let mut v = Vec::new();
    let has_lx = case.world.as_ref().map(|w| w.has("root/lx")).unwrap_or(false);
    let normal = |p: &str| normal_w(p, has_lx);
    let mut by_path: std::collections::BTreeMap<String, Vec<(u64, u64)>> = Default::default();
    for r in &out.records {
        if let Op::MkdirAll { path, .. } = &r.spec.op {
            match (&r.outcome, &r.facts) {
                (Outcome::Fd(_), Some(f)) => {
                    if f.ftype != libc::S_IFDIR {
                        v.push(("handle-not-directory".into(), format!("{path:?}")));
                    }
                    by_path.entry(normal(path)).or_default().push(f.ino);
                }
                (o, _) => {
                    if !is_interference(o) {
                        v.push(("concurrent-call-failed".into(), format!("mkdir_all({path:?}) on thread {} returned {:?}", r.thread, o)));
                    }
                }
            }
        }
    }
    for (p, inos) in &by_path {
        if inos.windows(2).any(|w| w[0] != w[1]) {
            v.push(("handles-differ".into(), format!("handles for {p:?} refer to different directories: {inos:?}")));
        }
    }
    let removed: Vec<&String> = pre.iter().filter(|l| !post.contains(l)).collect();
    if !removed.is_empty() {
        v.push(("something-removed-or-modified".into(), format!("{removed:?}")));
    }
    // expected additions: every prefix of every requested (normalised) path
    let mut want: std::collections::BTreeSet<String> = Default::default();
    for j in &case.jobs {
        for s in j {
            if let Op::MkdirAll { path, .. } = &s.op {
                let n = normal(path);
                let mut acc = String::from("root");
                for c in n.split('/').filter(|c| !c.is_empty()) {
                    acc = format!("{acc}/{c}");
                    want.insert(acc.clone());
                }
            }
        }
    }
    for a in post.iter().filter(|l| !pre.contains(l)) {
        let name = a.split(' ').nth(1).unwrap_or("");
        if !(a.starts_with("D ") && want.contains(name)) {
            v.push(("unexpected-addition".into(), format!("{a:?} (expected only directories among {want:?})")));
        } else if !a.contains("mode=755 ") {
            v.push(("wrong-mode".into(), a.clone()));
        }
    }
    for w in &want {
        if !post.iter().any(|l| l.starts_with(&format!("D {w} mode="))) {
            v.push(("component-missing-after-success".into(), format!("{w:?} does not exist after all calls returned")));
        }
    }
    v
}

/// scenarios with '..' in the requested path: a call may fail, but whatever happens nothing is
/// added outside the root, nothing is removed, and a returned handle is a directory inside the root
fn dotdot_oracle(out: &RunOut, pre: &[String], post: &[String]) -> Vec<(String, String)> {
    let mut v = Vec::new();
    for r in &out.records {
        if let (Op::MkdirAll { path, .. }, Outcome::Fd(_), Some(f)) = (&r.spec.op, &r.outcome, &r.facts) {
            if f.ftype != libc::S_IFDIR {
                v.push(("handle-not-directory".into(), format!("{path:?}")));
            }
            if !(f.path == "/mnt/w/root" || f.path.starts_with("/mnt/w/root/")) {
                v.push(("handle-outside-the-root".into(), format!("mkdir_all({path:?}) returned {}", f.path)));
            }
        }
        if let Outcome::Panic(m) = &r.outcome {
            v.push(("panic".into(), m.clone()));
        }
    }
    let removed: Vec<&String> = pre.iter().filter(|l| !post.contains(l)).collect();
    if !removed.is_empty() {
        v.push(("something-removed-or-modified".into(), format!("{removed:?}")));
    }
    for a in post.iter().filter(|l| !pre.contains(l)) {
        let name = a.split(' ').nth(1).unwrap_or("");
        if !(a.starts_with("D ") && name.starts_with("root/")) {
            v.push(("created-outside-the-root".into(), format!("{a:?} was added while mkdir_all calls with '..' raced with a call creating the component in front of it")));
        }
    }
    v
}

/// lexical normalisation for the concurrent menu (lx -> x, '.', '//', 'y/../y')
fn normal_w(p: &str, has_lx: bool) -> String {
    let mut out: Vec<&str> = Vec::new();
    for c in p.split('/') {
        match c {
            "" | "." => {}
            ".." => {
                out.pop();
            }
            "lx" if has_lx => out.push("x"),
            c => out.push(c),
        }
    }
    out.join("/")
}

struct Snap2 {
    pre: Vec<String>,
    taken: bool,
}
impl Hooks for Snap2 {
    fn begin_op(&mut self, ctx: &mut RunCtx, _t: usize, _k: usize, _s: &OpSpec) {
        if !self.taken {
            self.pre = ctx.world.full_snapshot("");
            self.taken = true;
        }
    }
}

fn run_conc(u: &mut Universe, case: &Case, st: &mut Stats, sample: bool) -> bool {
    let mut h = Snap2 { pre: Vec::new(), taken: false };
    let out = run_case(u, case, &mut h, false);
    if let Some(e) = &out.harness_error {
        st.harness_errors.push(format!("concurrent: {e}"));
        return false;
    }
    let post = World_full();
    st.evaluations += 1;
    st.merge_runout(&out);
    if out.switches > 0 {
        let mut hh = case.hash();
        sys::fnv(&mut hh, &out.interleaving_hash.to_le_bytes());
        st.nontrivial.insert(hh);
    }
    st.count("schedule.switches", out.switches as u64);
    let mut seen = std::collections::BTreeSet::new();
    let dotdot = case.jobs.iter().flatten().any(|s| matches!(&s.op, Op::MkdirAll { path, .. } if path.contains("..")));
    let verdicts = if dotdot { dotdot_oracle(&out, &h.pre, &post) } else { conc_oracle(case, &out, &h.pre, &post) };
    for (clause, detail) in verdicts {
        if seen.insert(clause.clone()) {
            let v = mk_violation(case, &out, "C12", &clause, "mkdir_all", detail);
            st.violation(&v);
        }
    }
    for f in &out.findings {
        let v = mk_violation(case, &out, "C12", &f.clause, "mkdir_all", f.detail.clone());
        st.violation(&v);
    }
    if sample {
        st.sample(json!({"phase": case.phase, "universe": case.uni.tag(), "case": case.with_explicit(&out.decisions).to_json()}));
    }
    true
}

#[allow(non_snake_case)]
fn World_full() -> Vec<String> {
    let w = crate::world::World { labels: Default::default(), dev: 0, root_ino: (0, 0), created_seq: 0 };
    w.full_snapshot("")
}

pub fn run(u: &mut Universe, b: &Batch, st: &mut Stats) {
    if let Err(e) = warm_up(u) {
        st.harness_errors.push(format!("warm-up: {e}"));
        return;
    }
    for idx in b.lo..b.hi {
        coord::progress(idx);
        match b.phase.as_str() {
            "replay" => {
                let case = match Case::from_json(&b.extra["case"]) {
                    Some(c) => c,
                    None => return,
                };
                if case.jobs.len() > 1 {
                    run_conc(u, &case, st, false);
                } else {
                    run_seq(u, &case, st, false);
                }
            }
            "sequential" => {
                let case = gen_seq_case(b.seed, idx, &b.uni);
                if !run_seq(u, &case, st, idx == b.lo) {
                    return;
                }
            }
            "concurrent" => {
                let case = gen_conc_case(b.seed, idx, &b.uni);
                if !run_conc(u, &case, st, idx == b.lo) {
                    return;
                }
            }
            "fault-enum" => {
                if !run_fault_enum(u, b, idx, st) {
                    return;
                }
            }
            _ => {
                // bounded-preemption enumeration
                let (w, jobs) = conc_scenarios()[idx as usize].clone();
                let shard = b.extra["shard"].as_u64().unwrap_or(0) as usize;
                let shards = b.extra["shards"].as_u64().unwrap_or(1) as usize;
                let two = b.extra["two"].as_bool().unwrap_or(false);
                let mk = |script: Vec<Dec>| {
                    let mut c = Case::new("C12", "preempt", b.uni.clone());
                    c.world = Some(w.clone());
                    c.jobs = jobs.clone();
                    c.plan.script = script;
                    c
                };
                // lengths: run each order once
                let base = mk(vec![]);
                let mut h = Snap2 { pre: Vec::new(), taken: false };
                let out0 = run_case(u, &base, &mut h, false);
                let n0 = out0.trace.iter().filter(|e| e.thread == 0).count() + 2;
                let n1 = out0.trace.iter().filter(|e| e.thread == 1).count() + 2;
                let mut scripts: Vec<Vec<Dec>> = vec![vec![], vec![Dec { step: 0, switch_to: Some(1), ..Default::default() }]];
                for s1 in 1..n0 {
                    scripts.push(vec![Dec { step: s1, switch_to: Some(1), ..Default::default() }]);
                    if two {
                        for j in 1..n1 {
                            scripts.push(vec![Dec { step: s1, switch_to: Some(1), ..Default::default() }, Dec { step: s1 + j, switch_to: Some(0), ..Default::default() }]);
                        }
                    }
                }
                for s1 in 1..n1 {
                    scripts.push(vec![Dec { step: 0, switch_to: Some(1), ..Default::default() }, Dec { step: s1, switch_to: Some(0), ..Default::default() }]);
                }
                st.count("preempt.schedules_total", if shard == 0 { scripts.len() as u64 } else { 0 });
                for (i, sc) in scripts.into_iter().enumerate() {
                    if i % shards != shard {
                        continue;
                    }
                    let case = mk(sc);
                    if !run_conc(u, &case, st, false) {
                        return;
                    }
                    st.count("preempt.schedules_run", 1);
                    if u.poisoned {
                        return;
                    }
                }
            }
        }
        if u.poisoned {
            return;
        }
    }
}

fn run_seq(u: &mut Universe, case: &Case, st: &mut Stats, sample: bool) -> bool {
    let parent_setgid = false;
    let mut h = H { umask: case.umask, kernel_backend: !case.uni.no_openat2, pre: Vec::new(), expect: Vec::new(), found: Vec::new(), parent_setgid };
    let mut tries = 0;
    let out = loop {
        h.found.clear();
        h.expect.clear();
        let out = run_case(u, case, &mut h, false);
        if out.records.iter().any(|r| is_interference(&r.outcome)) && tries < 3 {
            tries += 1;
            st.count("interference_reruns", 1);
            continue;
        }
        break out;
    };
    if let Some(e) = &out.harness_error {
        st.harness_errors.push(format!("sequential: {e}"));
        return false;
    }
    st.merge_runout(&out);
    for r in &out.records {
        st.evaluations += 1;
        st.count(&format!("outcome.{}", r.outcome.class().split(':').take(2).collect::<Vec<_>>().join(":")), 1);
        let created = matches!(h.expect.get(r.idx), Some(Some(Ok((_, rest)))) if !rest.is_empty());
        if created || r.outcome.is_ok() {
            let mut hh = case.hash();
            sys::fnv(&mut hh, &[r.idx as u8]);
            st.nontrivial.insert(hh);
        }
        if created {
            st.count("seq.calls_that_had_to_create", 1);
        }
    }
    for (i, clause, detail) in &h.found {
        let mut c1 = case.clone();
        if case.phase != "replay" {
            // keep the ops up to and including the failing one (earlier ones change the tree)
            c1.jobs = vec![case.jobs[0][..=*i].to_vec()];
        }
        let v = mk_violation(&c1, &out, "C12", clause, "mkdir_all", detail.clone());
        st.violation(&v);
    }
    if sample {
        st.sample(json!({"phase": "sequential", "universe": case.uni.tag(), "ops": case.jobs[0].iter().map(|o| o.to_json()).collect::<Vec<_>>(), "outcomes": out.records.iter().map(|r| r.outcome.class()).collect::<Vec<_>>()}));
    }
    true
}

pub fn finalise(tier: &str, seed: u64, res: coord::CheckResult) -> i32 {
    let mut extra = Map::new();
    let c = &res.stats.counters;
    extra.insert(
        "enumeration".into(),
        json!({"scenarios": conc_scenarios().len(), "schedules_total": c.get("preempt.schedules_total"), "schedules_run": c.get("preempt.schedules_run"),
               "bound": if tier == "thorough" { "<=2 preemptions (K), <=1 (E)" } else { "<=1 preemption" }}),
    );
    coord::finalise(
        "C12",
        tier,
        seed,
        "exploration",
        "sequential: one evaluation = one mkdir_all on a generated quiescent tree, expectation derived from raw openat2 queries before the call (deepest existing prefix, remaining components), post-state compared with the whole-tree snapshot; concurrent: one evaluation = 2-4 caller threads running mkdir_all for same/overlapping/disjoint paths under a seeded scheduler (uniform switching or PCT) that decides who runs between any two system calls; fault-enum: 11 fixed calls x every (system call of the call, errno of its catalogue) - a call that fails may have created only directories of the missing chain (a prefix of the requested path), a call that reports success has created all of them with the requested mode; preempt: every schedule with at most one (thorough, K: two) preemption(s) for six canonical two-thread scenarios (two of them with a `..` behind a component the other call creates: calls may fail, nothing may appear next to the root); non-trivial = (sequential) the call had to create something or succeeded / (concurrent) at least one context switch away from the default order happened; distinct = hash of (case, interleaving)",
        res,
        extra,
        vec!["preemption only at trapped system calls".into(), "umask 022, no setgid parents in generated worlds".into()],
        false,
        &|b, run| match b.phase.as_str() {
            "sequential" => Some(gen_seq_case(b.seed, run, &b.uni)),
            "concurrent" => Some(gen_conc_case(b.seed, run, &b.uni)),
            _ => None,
        },
    )
    .exit_code
}
