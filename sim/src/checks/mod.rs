//! Per-property check drivers. Each module provides
//!   plan(tier, seed)  -> batches            (coordinator side)
//!   run(universe, batch, stats)             (universe side)
//!   finalise(...)                           (coordinator side)
#![allow(dead_code)]

pub mod attack;
pub mod c01;
pub mod c02;
pub mod c03;
pub mod c04;
pub mod c05;
pub mod c06;
pub mod c07;
pub mod procgen;
pub mod selftest;
pub mod c08;
pub mod c09;
pub mod c11;
pub mod mixed;
pub mod c10;
pub mod c12;
pub mod c13;
pub mod c14;
pub mod c15;
pub mod c16;

use crate::case::Case;
use crate::coord::{Batch, Stats};
use crate::ops::{Op, OpSpec};
use crate::sup::{Hooks, NoHooks, Plan, RunInput, RunOut, UniCfg, Universe};
use crate::sys;
use crate::world::{Entry, WorldSpec};

pub fn warm_world() -> WorldSpec {
    let mut w = WorldSpec::default();
    w.push(Entry::dir("root/warm"));
    w.push(Entry::file("root/warm/f", "w"));
    w.push(Entry::link("root/wl", "warm"));
    w
}

/// Warm the library's process-wide lazies (feature probes, global procfs
/// handle, sysctl cache) so that later runs do not depend on universe history.
pub fn warm_up(u: &mut Universe) -> Result<(), String> {
    let w = warm_world();
    let jobs = vec![vec![
        OpSpec::new(Op::Resolve { path: "wl/f".into(), nofollow: false }).store(1),
        OpSpec::new(Op::Reopen { slot: 1, flags: libc::O_RDONLY }),
        OpSpec::new(Op::MkdirAll { path: "warm/x".into(), mode: 0o755 }),
        OpSpec::new(Op::Resolve { path: "nonexistent".into(), nofollow: false }).c(),
    ]];
    // every worker thread warms its own thread-locals (thread_rng)
    let n = u.cfg.workers.max(1);
    let mut all = jobs.clone();
    for _ in 1..n {
        all.push(vec![OpSpec::new(Op::Resolve { path: "nonexistent".into(), nofollow: false }).c()]);
    }
    let out = u.run(RunInput::new(Some(&w), all, Plan::default()), &mut NoHooks);
    if let Some(e) = out.harness_error {
        return Err(e);
    }
    if u.poisoned {
        return Err(format!("warm-up poisoned the universe: {:?}", out.records.iter().map(|r| r.outcome.class()).collect::<Vec<_>>()));
    }
    Ok(())
}

pub fn run_case(u: &mut Universe, case: &Case, hooks: &mut dyn Hooks, outside_chain: bool) -> RunOut {
    let mut input = RunInput::new(case.world.as_ref(), case.jobs.clone(), case.plan.clone());
    input.umask = case.umask;
    input.outside_chain = outside_chain;
    u.run(input, hooks)
}

/// Result of asking the kernel itself (raw openat2 issued by the harness).
#[derive(Debug, Clone, PartialEq)]
pub enum KRes {
    Obj { ino: (u64, u64), ftype: u32 },
    Err(i32),
}

/// In-root lookup by the kernel: openat2(RESOLVE_IN_ROOT|RESOLVE_NO_MAGICLINKS[|NO_SYMLINKS]).
pub fn kernel_lookup(rootfd: i32, path: &str, nofollow: bool, no_symlinks: bool) -> KRes {
    let mut flags = libc::O_PATH as u64;
    if nofollow {
        flags |= libc::O_NOFOLLOW as u64;
    }
    let mut res = sys::RESOLVE_IN_ROOT | sys::RESOLVE_NO_MAGICLINKS;
    if no_symlinks {
        res |= sys::RESOLVE_NO_SYMLINKS;
    }
    match sys::openat2(rootfd, path.as_bytes(), flags, 0, res) {
        Ok(fd) => {
            let st = sys::fstat(fd);
            sys::close(fd);
            match st {
                Ok(st) => KRes::Obj { ino: (st.st_dev, st.st_ino), ftype: st.st_mode & libc::S_IFMT },
                Err(e) => KRes::Err(e),
            }
        }
        Err(e) => KRes::Err(e),
    }
}

pub fn kernel_open(rootfd: i32, path: &str, oflags: i32, no_symlinks: bool) -> Result<i32, i32> {
    let mut res = sys::RESOLVE_IN_ROOT | sys::RESOLVE_NO_MAGICLINKS;
    if no_symlinks {
        res |= sys::RESOLVE_NO_SYMLINKS;
    }
    sys::openat2(rootfd, path.as_bytes(), oflags as u32 as u64, 0, res)
}

pub fn uni_from_extra(b: &Batch) -> UniCfg {
    b.uni.clone()
}

pub fn is_interference(o: &crate::ops::Outcome) -> bool {
    // openat2 lookups that contain ".." return EAGAIN when *any* rename or
    // mount happens anywhere on the machine while they run (kernel-global
    // rename_lock / mount_lock sequence counters): that is interference from
    // outside the simulation, not an answer.
    match o {
        crate::ops::Outcome::Err { errno, desc, .. } => {
            desc.contains("racing filesystem changes caused openat2 to abort") || (*errno == libc::EAGAIN && desc.contains("openat2"))
        }
        _ => false,
    }
}

/// Dispatch for the universe side.
pub fn run_batch(u: &mut Universe, b: &Batch, st: &mut Stats) {
    match b.check.as_str() {
        "SELF" => selftest::run(u, b, st),
        "C01" => c01::run(u, b, st),
        "C10" => c10::run(u, b, st),
        "C02" => c02::run(u, b, st),
        "C03" => c03::run(u, b, st),
        "C04" => c04::run(u, b, st),
        "C05" => c05::run(u, b, st),
        "C06" => c06::run(u, b, st),
        "C07" => c07::run(u, b, st),
        "C08" => c08::run(u, b, st),
        "C09" => c09::run(u, b, st),
        "C11" => c11::run(u, b, st),
        "C12" => c12::run(u, b, st),
        "C13" => c13::run(u, b, st),
        "C14" => c14::run(u, b, st),
        "C15" => c15::run(u, b, st),
        "C16" => c16::run(u, b, st),
        other => st.harness_errors.push(format!("unknown check {other}")),
    }
}

/// Coordinator side: run one check, return the exit code.
pub fn run_check(id: &str, tier: &str, seed: u64, jobs: usize) -> i32 {
    match id {
        "selftest" => selftest::check(if tier == "thorough" { 400 } else { 60 }),
        "C01" => {
            let res = crate::coord::run_batches(c01::plan(tier, seed), jobs);
            c01::finalise(tier, seed, res)
        }
        "C02" => {
            let res = crate::coord::run_batches(c02::plan(tier, seed), jobs);
            c02::finalise(tier, seed, res)
        }
        "C03" => {
            let res = crate::coord::run_batches(c03::plan(tier, seed), jobs);
            c03::finalise(tier, seed, res)
        }
        "C12" => {
            let res = crate::coord::run_batches(c12::plan(tier, seed), jobs);
            c12::finalise(tier, seed, res)
        }
        "C13" => {
            let res = crate::coord::run_batches(c13::plan(tier, seed), jobs);
            c13::finalise(tier, seed, res)
        }
        "C14" => {
            let res = crate::coord::run_batches(c14::plan(tier, seed), jobs);
            c14::finalise(tier, seed, res)
        }
        "C04" => c04::check(tier, seed, jobs),
        "C05" => {
            let res = crate::coord::run_batches(c05::plan(tier, seed), jobs);
            c05::finalise(tier, seed, res)
        }
        "C11" => {
            let res = crate::coord::run_batches(c11::plan(tier, seed), jobs);
            c11::finalise(tier, seed, res)
        }
        "C15" => {
            let res = crate::coord::run_batches(c15::plan(tier, seed), jobs);
            c15::finalise(tier, seed, res)
        }
        "C16" => {
            let res = crate::coord::run_batches(c16::plan(tier, seed), jobs);
            c16::finalise(tier, seed, res)
        }
        "C06" => {
            let res = crate::coord::run_batches(c06::plan(tier, seed), jobs);
            c06::finalise(tier, seed, res)
        }
        "C07" => c07::check(tier, seed, jobs),
        "C08" => {
            let res = crate::coord::run_batches(c08::plan(tier, seed), jobs);
            c08::finalise(tier, seed, res)
        }
        "C09" => {
            let res = crate::coord::run_batches(c09::plan(tier, seed), jobs);
            c09::finalise(tier, seed, res)
        }
        "C10" => {
            let probe = crate::coord::run_batches(c10::plan_probe(tier, seed), jobs);
            let total = probe.stats.counters.get("placements_total").copied().unwrap_or(0);
            let batches = c10::plan_enum(tier, seed, &probe.stats);
            let mut res = crate::coord::run_batches(batches, jobs);
            // fold the probe stage (fault-free runs, also held to the oracle) in
            res.wall_s += probe.wall_s;
            res.stats.evaluations += probe.stats.evaluations;
            res.stats.steps += probe.stats.steps;
            res.stats.violations.extend(probe.stats.violations);
            res.stats.harness_errors.extend(probe.stats.harness_errors);
            res.died.extend(probe.died);
            for (k, v) in probe.stats.counters {
                res.stats.count(&k, v);
            }
            c10::finalise(tier, seed, res, total)
        }
        _ => {
            eprintln!("unknown check {id}");
            2
        }
    }
}

/// Replay one explicit case from a replay file, in a fresh universe process.
pub fn replay(path: &str) -> i32 {
    let s = match std::fs::read_to_string(path) {
        Ok(s) => s,
        Err(e) => {
            eprintln!("cannot read {path}: {e}");
            return 2;
        }
    };
    let v: serde_json::Value = match serde_json::from_str(&s) {
        Ok(v) => v,
        Err(e) => {
            eprintln!("bad json: {e}");
            return 2;
        }
    };
    let case = match Case::from_json(&v) {
        Some(c) => c,
        None => {
            eprintln!("not a case file");
            return 2;
        }
    };
    if case.check == "C04" {
        let mk = |uni: UniCfg| Batch { check: "C04".into(), phase: "replay".into(), uni, seed: 0, lo: 0, hi: 1, fresh: false, tier: "quick".into(), extra: serde_json::json!({"case": v}) };
        let rk = crate::coord::run_batches(vec![mk(UniCfg::k())], 1);
        let re = crate::coord::run_batches(vec![mk(UniCfg::e())], 1);
        let (res, _, _) = c04::compare(0, rk, re, Some(&case));
        let want = v["expect"]["signature"].as_str().unwrap_or("").to_string();
        let mut same = false;
        for x in &res.stats.violations {
            let sig = x["expect"]["signature"].as_str().unwrap_or("");
            println!("REPLAY violation: {sig}: {}", x["expect"]["detail"].as_str().unwrap_or(""));
            same |= sig == want;
        }
        if same {
            println!("REPLAY reproduced: {want}");
        }
        return if res.stats.violations.is_empty() { 0 } else { 1 };
    }
    let b = Batch {
        check: case.check.clone(),
        phase: "replay".into(),
        uni: case.uni.clone(),
        seed: 0,
        lo: 0,
        hi: 1,
        fresh: case.fresh,
        tier: "quick".into(),
        extra: serde_json::json!({"case": v}),
    };
    let res = crate::coord::run_batches(vec![b], 1);
    let want = v["expect"]["signature"].as_str().unwrap_or("").to_string();
    let mut same = false;
    for x in &res.stats.violations {
        let sig = x["expect"]["signature"].as_str().unwrap_or("");
        println!("REPLAY violation: {sig}: {}", x["expect"]["detail"].as_str().unwrap_or(""));
        if sig == want {
            same = true;
        }
    }
    for d in &res.died {
        println!("REPLAY universe died: {d}");
        if want.contains("universe-died") {
            same = true;
        }
    }
    for e in &res.stats.harness_errors {
        eprintln!("HARNESS-ERROR: {e}");
    }
    if same {
        println!("REPLAY reproduced: {want}");
        1
    } else if res.stats.violations.is_empty() && res.died.is_empty() {
        println!("REPLAY clean (expected {want})");
        0
    } else {
        println!("REPLAY different violation (expected {want})");
        1
    }
}
