//! Per-property check drivers. Each module provides
//!   plan(tier, seed)  -> batches            (coordinator side)
//!   run(universe, batch, stats)             (universe side)
//!   finalise(...)                           (coordinator side)
#![allow(dead_code)]

pub mod attack;
pub mod c01;
pub mod c02;
pub mod c03;
pub mod c04;
pub mod c05;
pub mod c06;
pub mod c07;
pub mod procgen;
pub mod selftest;
pub mod c08;
pub mod c09;
pub mod c11;
pub mod mixed;
pub mod c10;
pub mod c12;
pub mod c13;
pub mod c14;
pub mod c15;
pub mod c16;

use crate::case::Case;
use crate::coord::{Batch, Stats};
use crate::ops::{Op, OpSpec};
use crate::sup::{Hooks, NoHooks, Plan, RunInput, RunOut, UniCfg, Universe};
use crate::sys;
use crate::world::{Entry, WorldSpec};

pub fn warm_world() -> WorldSpec {
    let mut w = WorldSpec::default();
    w.push(Entry::dir("root/warm"));
    w.push(Entry::file("root/warm/f", "w"));
    w.push(Entry::link("root/wl", "warm"));
    w
}

/// Warm the library's process-wide lazies (feature probes, global procfs
/// handle, sysctl cache) so that later runs do not depend on universe history.
pub fn warm_up(u: &mut Universe) -> Result<(), String> {
    let w = warm_world();
    let jobs = vec![vec![
        OpSpec::new(Op::Resolve { path: "wl/f".into(), nofollow: false }).store(1),
        OpSpec::new(Op::Reopen { slot: 1, flags: libc::O_RDONLY }),
        // a *trailing* link: the emulated resolver reads (and caches) fs.protected_symlinks only for those
        OpSpec::new(Op::Resolve { path: "wl".into(), nofollow: false }),
        OpSpec::new(Op::MkdirAll { path: "warm/x".into(), mode: 0o755 }),
        OpSpec::new(Op::Resolve { path: "nonexistent".into(), nofollow: false }).c(),
    ]];
    // every worker thread warms its own thread-locals (thread_rng)
    let n = u.cfg.workers.max(1);
    let mut all = jobs.clone();
    for _ in 1..n {
        all.push(vec![OpSpec::new(Op::Resolve { path: "nonexistent".into(), nofollow: false }).c()]);
    }
    let out = u.run(RunInput::new(Some(&w), all, Plan::default()), &mut NoHooks);
    if let Some(e) = out.harness_error {
        return Err(e);
    }
    if u.poisoned {
        return Err(format!("warm-up poisoned the universe: {:?}", out.records.iter().map(|r| r.outcome.class()).collect::<Vec<_>>()));
    }
    Ok(())
}

pub fn run_case(u: &mut Universe, case: &Case, hooks: &mut dyn Hooks, outside_chain: bool) -> RunOut {
    let mut input = RunInput::new(case.world.as_ref(), case.jobs.clone(), case.plan.clone());
    input.umask = case.umask;
    input.outside_chain = outside_chain;
    u.run(input, hooks)
}

/// Result of asking the kernel itself (raw openat2 issued by the harness).
#[derive(Debug, Clone, PartialEq)]
pub enum KRes {
    Obj { ino: (u64, u64), ftype: u32 },
    Err(i32),
}

/// In-root lookup by the kernel: openat2(RESOLVE_IN_ROOT|RESOLVE_NO_MAGICLINKS[|NO_SYMLINKS]).
pub fn kernel_lookup(rootfd: i32, path: &str, nofollow: bool, no_symlinks: bool) -> KRes {
    let mut flags = libc::O_PATH as u64;
    if nofollow {
        flags |= libc::O_NOFOLLOW as u64;
    }
    let mut res = sys::RESOLVE_IN_ROOT | sys::RESOLVE_NO_MAGICLINKS;
    if no_symlinks {
        res |= sys::RESOLVE_NO_SYMLINKS;
    }
    match sys::openat2(rootfd, path.as_bytes(), flags, 0, res) {
        Ok(fd) => {
            let st = sys::fstat(fd);
            sys::close(fd);
            match st {
                Ok(st) => KRes::Obj { ino: (st.st_dev, st.st_ino), ftype: st.st_mode & libc::S_IFMT },
                Err(e) => KRes::Err(e),
            }
        }
        Err(e) => KRes::Err(e),
    }
}

pub fn kernel_open(rootfd: i32, path: &str, oflags: i32, no_symlinks: bool) -> Result<i32, i32> {
    let mut res = sys::RESOLVE_IN_ROOT | sys::RESOLVE_NO_MAGICLINKS;
    if no_symlinks {
        res |= sys::RESOLVE_NO_SYMLINKS;
    }
    sys::openat2(rootfd, path.as_bytes(), oflags as u32 as u64, 0, res)
}

/// The kernel's ELOOP is not a function of the tree for paths that cross
/// 21..40 symlinks (the link count survives an RCU-walk restart). Whenever the
/// kernel is the oracle, a disagreement in which one side says ELOOP is
/// therefore classified before it is reported:
///  * K universe: the library's answer is itself a kernel answer - the kernel
///    disagrees with itself; counted, not reported (returns None);
///  * E universe and the library followed more than 20 links: the documented
///    difference in the symlink budget (clause "symlink-budget-differs");
///  * otherwise the clause is reported unchanged.
pub fn eloop_triage(clause: &str, detail: &str, kernel_backend: bool, links_followed: usize) -> Option<String> {
    if !(detail.contains("ELOOP") || detail.contains("Too many levels of symbolic links") || detail.contains("errno: 40")) {
        return Some(clause.to_string());
    }
    if kernel_backend {
        return None;
    }
    // the documented divergence needs more links than the kernel allows (40) and fewer than the
    // emulated budget (128); 21..40 links with ELOOP on one side is the kernel's own unstable band
    if links_followed > 40 && links_followed < 128 {
        return Some("symlink-budget-differs".to_string());
    }
    if links_followed > 20 && links_followed <= 40 {
        return None;
    }
    Some(clause.to_string())
}

pub fn links_followed(out: &crate::sup::RunOut, rec: &crate::sup::OpRecord) -> usize {
    // links of the tree only (the library also reads procfs links, for its '..' checks)
    out.trace.iter().filter(|e| e.step >= rec.begin_step && e.step <= rec.end_step && e.thread == rec.thread && e.nr == libc::SYS_readlinkat && matches!(e.dir.as_ref().map(|d| &d.prov), Some(crate::sup::Prov::Tree(..)) | Some(crate::sup::Prov::TreeUnknown))).count()
}

pub fn uni_from_extra(b: &Batch) -> UniCfg {
    b.uni.clone()
}

pub fn is_interference(o: &crate::ops::Outcome) -> bool {
    // openat2 lookups that contain ".." return EAGAIN when *any* rename or
    // mount happens anywhere on the machine while they run (kernel-global
    // rename_lock / mount_lock sequence counters): that is interference from
    // outside the simulation, not an answer.
    match o {
        crate::ops::Outcome::Err { errno, desc, .. } => {
            desc.contains("racing filesystem changes caused openat2 to abort") || (*errno == libc::EAGAIN && desc.contains("openat2"))
        }
        _ => false,
    }
}

/// Dispatch for the universe side.
pub fn run_batch(u: &mut Universe, b: &Batch, st: &mut Stats) {
    match b.check.as_str() {
        "SELF" => selftest::run(u, b, st),
        "C01" => c01::run(u, b, st),
        "C10" => c10::run(u, b, st),
        "C02" => c02::run(u, b, st),
        "C03" => c03::run(u, b, st),
        "C04" => c04::run(u, b, st),
        "C05" => c05::run(u, b, st),
        "C06" => c06::run(u, b, st),
        "C07" => c07::run(u, b, st),
        "C08" => c08::run(u, b, st),
        "C09" => c09::run(u, b, st),
        "C11" => c11::run(u, b, st),
        "C12" => c12::run(u, b, st),
        "C13" => c13::run(u, b, st),
        "C14" => c14::run(u, b, st),
        "C15" => c15::run(u, b, st),
        "C16" => c16::run(u, b, st),
        other => st.harness_errors.push(format!("unknown check {other}")),
    }
}

/// Coordinator side: run one check, return the exit code.
pub fn run_check(id: &str, tier: &str, seed: u64, jobs: usize) -> i32 {
    match id {
        "selftest" => selftest::check(if tier == "thorough" { 400 } else { 60 }),
        "C01" => {
            let res = crate::coord::run_batches(c01::plan(tier, seed), jobs);
            c01::finalise(tier, seed, res)
        }
        "C02" => {
            let res = crate::coord::run_batches(c02::plan(tier, seed), jobs);
            c02::finalise(tier, seed, res)
        }
        "C03" => {
            let res = crate::coord::run_batches(c03::plan(tier, seed), jobs);
            c03::finalise(tier, seed, res)
        }
        "C12" => {
            let res = crate::coord::run_batches(c12::plan(tier, seed), jobs);
            c12::finalise(tier, seed, res)
        }
        "C13" => {
            let res = crate::coord::run_batches(c13::plan(tier, seed), jobs);
            c13::finalise(tier, seed, res)
        }
        "C14" => {
            let res = crate::coord::run_batches(c14::plan(tier, seed), jobs);
            c14::finalise(tier, seed, res)
        }
        "C04" => c04::check(tier, seed, jobs),
        "C05" => {
            let res = crate::coord::run_batches(c05::plan(tier, seed), jobs);
            c05::finalise(tier, seed, res)
        }
        "C11" => {
            let res = crate::coord::run_batches(c11::plan(tier, seed), jobs);
            c11::finalise(tier, seed, res)
        }
        "C15" => {
            let res = crate::coord::run_batches(c15::plan(tier, seed), jobs);
            c15::finalise(tier, seed, res)
        }
        "C16" => {
            let res = crate::coord::run_batches(c16::plan(tier, seed), jobs);
            c16::finalise(tier, seed, res)
        }
        "C06" => {
            let res = crate::coord::run_batches(c06::plan(tier, seed), jobs);
            c06::finalise(tier, seed, res)
        }
        "C07" => c07::check(tier, seed, jobs),
        "C08" => {
            let res = crate::coord::run_batches(c08::plan(tier, seed), jobs);
            c08::finalise(tier, seed, res)
        }
        "C09" => {
            let res = crate::coord::run_batches(c09::plan(tier, seed), jobs);
            c09::finalise(tier, seed, res)
        }
        "C10" => {
            let probe = crate::coord::run_batches(c10::plan_probe(tier, seed), jobs);
            let total = probe.stats.counters.get("placements_total").copied().unwrap_or(0);
            let batches = c10::plan_enum(tier, seed, &probe.stats);
            let mut res = crate::coord::run_batches(batches, jobs);
            // fold the probe stage (fault-free runs, also held to the oracle) in
            res.wall_s += probe.wall_s;
            res.stats.evaluations += probe.stats.evaluations;
            res.stats.steps += probe.stats.steps;
            res.stats.violations.extend(probe.stats.violations);
            res.stats.harness_errors.extend(probe.stats.harness_errors);
            res.died.extend(probe.died);
            for (k, v) in probe.stats.counters {
                res.stats.count(&k, v);
            }
            c10::finalise(tier, seed, res, total)
        }
        _ => {
            eprintln!("unknown check {id}");
            2
        }
    }
}

/// Run one explicit case (replay-file JSON) in a fresh universe process and
/// return the signatures of the violations it produces.
pub fn replay_value(v: &serde_json::Value) -> (Vec<(String, String)>, Vec<String>) {
    let case = match Case::from_json(v) {
        Some(c) => c,
        None => return (Vec::new(), vec!["not a case".into()]),
    };
    if case.check == "C04" {
        let mk = |uni: UniCfg| Batch { check: "C04".into(), phase: "replay".into(), uni, seed: 0, lo: 0, hi: 1, fresh: false, tier: "quick".into(), extra: serde_json::json!({"case": v}) };
        let rk = crate::coord::run_batches(vec![mk(UniCfg::k())], 1);
        let re = crate::coord::run_batches(vec![mk(UniCfg::e())], 1);
        let (res, _, _) = c04::compare(0, rk, re, Some(&case));
        let sigs = res.stats.violations.iter().map(|x| (x["expect"]["signature"].as_str().unwrap_or("").to_string(), x["expect"]["detail"].as_str().unwrap_or("").to_string())).collect();
        return (sigs, res.stats.harness_errors);
    }
    let b = Batch {
        check: case.check.clone(),
        phase: "replay".into(),
        uni: case.uni.clone(),
        seed: 0,
        lo: 0,
        hi: 1,
        fresh: case.fresh,
        tier: "quick".into(),
        extra: serde_json::json!({"case": v}),
    };
    let res = crate::coord::run_batches(vec![b], 1);
    let mut sigs: Vec<(String, String)> =
        res.stats.violations.iter().map(|x| (x["expect"]["signature"].as_str().unwrap_or("").to_string(), x["expect"]["detail"].as_str().unwrap_or("").to_string())).collect();
    for d in &res.died {
        let opname = v["ops"][0].as_array().and_then(|a| a.last()).map(|o| o["op"][0].as_str().unwrap_or("").to_string()).unwrap_or_default();
        sigs.push((format!("{}/universe-died/{opname}", case.check), format!("universe died: {}", d["how"])));
    }
    (sigs, res.stats.harness_errors)
}

/// Replay one explicit case from a replay file, in a fresh universe process.
pub fn replay(path: &str) -> i32 {
    let s = match std::fs::read_to_string(path) {
        Ok(s) => s,
        Err(e) => {
            eprintln!("cannot read {path}: {e}");
            return 2;
        }
    };
    let v: serde_json::Value = match serde_json::from_str(&s) {
        Ok(v) => v,
        Err(e) => {
            eprintln!("bad json: {e}");
            return 2;
        }
    };
    let want = v["expect"]["signature"].as_str().unwrap_or("").to_string();
    let (sigs, herr) = replay_value(&v);
    for e in &herr {
        eprintln!("HARNESS-ERROR: {e}");
    }
    let mut same = false;
    for (sig, detail) in &sigs {
        println!("REPLAY violation: {sig}: {detail}");
        same |= *sig == want;
    }
    if same {
        println!("REPLAY reproduced: {want}");
        1
    } else if sigs.is_empty() {
        println!("REPLAY clean (expected {want})");
        if herr.is_empty() {
            0
        } else {
            2
        }
    } else {
        println!("REPLAY different violation (expected {want})");
        1
    }
}

/// Delta-debugging over the replay file: attacker operations, faults,
/// context switches, operations, world entries - as long as the same
/// violation signature persists. At most `budget` replays.
pub fn minimise(v: &serde_json::Value, budget: usize) -> (serde_json::Value, usize) {
    let want = v["expect"]["signature"].as_str().unwrap_or("").to_string();
    let mut cur = v.clone();
    let mut used = 0usize;
    let still = |cand: &serde_json::Value, used: &mut usize| -> Option<String> {
        *used += 1;
        let (sigs, _) = replay_value(cand);
        sigs.into_iter().find(|(s, _)| *s == want).map(|(_, d)| d)
    };
    // the unreduced case must reproduce at all
    match still(&cur, &mut used) {
        Some(_) => {}
        None => return (cur, used),
    }
    // 1. decisions (attacker ops, faults, switches)
    loop {
        let n = cur["plan"]["decisions"].as_array().map(|a| a.len()).unwrap_or(0);
        let mut progress = false;
        let mut i = 0;
        while i < cur["plan"]["decisions"].as_array().map(|a| a.len()).unwrap_or(0) && used < budget {
            let mut cand = cur.clone();
            cand["plan"]["decisions"].as_array_mut().unwrap().remove(i);
            if let Some(d) = still(&cand, &mut used) {
                cand["expect"]["detail"] = serde_json::json!(d);
                cur = cand;
                progress = true;
            } else {
                // try dropping single attacker ops inside the decision
                let na = cur["plan"]["decisions"][i]["attacker"].as_array().map(|a| a.len()).unwrap_or(0);
                if na > 1 {
                    let mut j = 0;
                    while j < cur["plan"]["decisions"][i]["attacker"].as_array().map(|a| a.len()).unwrap_or(0) && used < budget {
                        let mut cand = cur.clone();
                        cand["plan"]["decisions"][i]["attacker"].as_array_mut().unwrap().remove(j);
                        if let Some(d) = still(&cand, &mut used) {
                            cand["expect"]["detail"] = serde_json::json!(d);
                            cur = cand;
                        } else {
                            j += 1;
                        }
                    }
                }
                i += 1;
            }
        }
        if !progress || n == 0 || used >= budget {
            break;
        }
    }
    // 2. operations (never the last one of a thread; never harness set-up the target depends on is tried too)
    let nthreads = cur["ops"].as_array().map(|a| a.len()).unwrap_or(0);
    for t in 0..nthreads {
        let mut i = 0;
        while used < budget {
            let len = cur["ops"][t].as_array().map(|a| a.len()).unwrap_or(0);
            if len < 2 || i + 1 >= len {
                break;
            }
            let mut cand = cur.clone();
            cand["ops"][t].as_array_mut().unwrap().remove(i);
            if let Some(d) = still(&cand, &mut used) {
                cand["expect"]["detail"] = serde_json::json!(d);
                cur = cand;
            } else {
                i += 1;
            }
        }
    }
    // extra threads
    while cur["ops"].as_array().map(|a| a.len()).unwrap_or(0) > 1 && used < budget {
        let mut cand = cur.clone();
        cand["ops"].as_array_mut().unwrap().pop();
        if let Some(d) = still(&cand, &mut used) {
            cand["expect"]["detail"] = serde_json::json!(d);
            cur = cand;
        } else {
            break;
        }
    }
    // 3. world entries (chunks first)
    if cur["world"].is_array() {
        let mut chunk = (cur["world"].as_array().unwrap().len() / 2).max(1);
        while chunk >= 1 && used < budget {
            let mut i = 0;
            while used < budget {
                let len = cur["world"].as_array().unwrap().len();
                if i >= len {
                    break;
                }
                let mut cand = cur.clone();
                {
                    let a = cand["world"].as_array_mut().unwrap();
                    let hi = (i + chunk).min(a.len());
                    // keep the root itself
                    let keep_root = a[i..hi].iter().any(|e| e[0].as_str() == Some("root"));
                    if keep_root {
                        i += 1;
                        continue;
                    }
                    a.drain(i..hi);
                }
                if let Some(d) = still(&cand, &mut used) {
                    cand["expect"]["detail"] = serde_json::json!(d);
                    cur = cand;
                } else {
                    i += chunk;
                }
            }
            if chunk == 1 {
                break;
            }
            chunk /= 2;
        }
    }
    cur["minimised"] = serde_json::json!({"replays_used": used, "from": {"decisions": v["plan"]["decisions"].as_array().map(|a| a.len()), "ops": v["ops"].as_array().map(|a| a.iter().map(|t| t.as_array().map(|x| x.len()).unwrap_or(0)).sum::<usize>()), "world_entries": v["world"].as_array().map(|a| a.len())}});
    cur["trace"] = serde_json::Value::Null;
    (cur, used)
}
