//! Shared machinery of the adversarial checks (C02, C03): race world,
//! mutation catalogues, containment oracles over results and over the trace.
use crate::gen;
use crate::ops::{CreateKind, Op, OpSpec, Outcome};
use crate::rng::Rng;
use crate::sup::{Ev, Hooks, OpRecord, Prov, RunCtx, RunOut};
use crate::world::{Entry, Mutation, World, WorldSpec, Zone};

/// The suite's race tree, extended with decoys so that an escape *lands* on
/// a never-inside object instead of ENOENT.
pub fn race_world() -> WorldSpec {
    let mut w = WorldSpec::default();
    w.push(Entry::dir("root"));
    w.push(Entry::dir("root/a/b/c/d"));
    w.push(Entry::link("root/b-link", "../b/../b/../b/../b/../b/../b/../b/../b/../b/../b/../b/../b/../b"));
    w.push(Entry::link("root/c-link", "../../b/c/../../b/c/../../b/c/../../b/c/../../b/c/../../b/c/../../b/c/../../b/c/../../b/c"));
    w.push(Entry::link("root/bad-link1", "/non/exist"));
    w.push(Entry::link("root/bad-link2", "/file/non/exist"));
    w.push(Entry::file("root/etc/passwd", "INROOT-ETC-PASSWD"));
    w.push(Entry::file("root/etc-target/passwd", "INROOT-ETC-TARGET-PASSWD"));
    w.push(Entry::link("root/etc-attack-rel-link", "../../../../../../../../../../../../../../../../../../etc"));
    w.push(Entry::link("root/etc-attack-abs-link", "/../../../../../../../../../../../../../../../../../../etc"));
    w.push(Entry::link("root/passwd-attack-rel-link", "../../../../../../../../../../../../../../../../../../etc/passwd"));
    w.push(Entry::link("root/passwd-attack-abs-link", "/../../../../../../../../../../../../../../../../../../etc/passwd"));
    w.push(Entry::file("root/file", "INROOT-FILE"));
    w.push(Entry::file("root/a/b/c/d/leaf", "INROOT-LEAF"));
    w.push(Entry::link("root/a/b/lnk", "INROOT-BODY-a-b-lnk"));
    w.push(Entry::link("root/a/lnk", "b/c"));
    // outside: the suite's exchange partner plus decoys named like in-root entries
    w.push(Entry::dir("outsideroot"));
    w.push(Entry::file("outsideroot/c/d/leaf", "DECOY-OUTSIDEROOT-LEAF"));
    w.push(Entry::file("secret", "TOP-SECRET-PARENT"));
    w.push(Entry::file("etc/passwd", "PARENT-ETC-PASSWD"));
    w.push(Entry::file("file", "PARENT-FILE"));
    w.push(Entry::dir("a/b/c/d"));
    w.push(Entry::file("a/b/c/d/leaf", "PARENT-A-LEAF"));
    w.push(Entry::dir("b/c/d"));
    w.push(Entry::dir("outside/landing/a/b/c/d"));
    w.push(Entry::file("outside/landing/a/b/c/d/leaf", "DECOY-LANDING-LEAF"));
    w.push(Entry::file("outside/landing/etc/passwd", "DECOY-LANDING-PASSWD"));
    w.push(Entry::file("outside/landing/file", "DECOY-LANDING-FILE"));
    w.push(Entry::link("outside/landing/b-link", "DECOY-BODY-b-link"));
    w.push(Entry::link("outside/blink", "DECOY-BODY-outside-blink"));
    w.push(Entry::file("outside/secret", "OUTSIDE-SECRET"));
    // never-inside *symlinks* under the names an escaped walk would look up
    // next: following (reading) one of them is itself a violation, even if a
    // later check refuses the final result
    w.push(Entry::link("outside/etc", "DECOY-BODY-outside-etc"));
    w.push(Entry::link("outside/file", "DECOY-BODY-outside-file"));
    w.push(Entry::link("outside/a", "DECOY-BODY-outside-a"));
    w.push(Entry::link("outside/b", "DECOY-BODY-outside-b"));
    w.push(Entry::link("outside/landing/b", "DECOY-BODY-landing-b"));
    w.push(Entry::link("outside/landing/c", "DECOY-BODY-landing-c"));
    w.push(Entry::link("outside/landing/leaf", "DECOY-BODY-landing-leaf"));
    // a sibling of the root whose *name* is the root's name plus the decoration d_path() appends
    // to unlinked inodes: a path comparison that strips " (deleted)" would take it for the root
    w.push(Entry::file("root (deleted)/etc/passwd", "DECOY-DELETED-SIBLING-PASSWD"));
    w.push(Entry::file("root (deleted)/file", "DECOY-DELETED-SIBLING-FILE"));
    w.push(Entry::link("root (deleted)/b-link", "DECOY-BODY-deleted-sibling-b-link"));
    w.push(Entry::dir("root (deleted)/etc-target"));
    // a sibling whose name is the root's name followed by the name of a first-level entry: a
    // containment check that compares byte prefixes ("/mnt/w/root" + "a/b") takes /mnt/w/roota/b
    // for /mnt/w/root/a/b
    w.push(Entry::dir("roota/b"));
    w.push(Entry::link("roota/b-link", "DECOY-BODY-roota-b-link"));
    w.push(Entry::file("roota/file", "DECOY-ROOTA-FILE"));
    w.push(Entry::file("roota/etc/passwd", "DECOY-ROOTA-PASSWD"));
    w
}

/// The suite's nine exchange pairs (paths relative to the root; "../x" is
/// the root's parent) plus moves out of the root and symlink swaps.
pub fn race_mutations() -> Vec<(Mutation, Option<Mutation>)> {
    let ex = |a: &str, b: &str| {
        let fix = |p: &str| if let Some(r) = p.strip_prefix("../") { r.to_string() } else if p == "." { "root".to_string() } else { format!("root/{p}") };
        let m = Mutation::Exchange { a: fix(a), b: fix(b) };
        (m.clone(), Some(m))
    };
    let mut v = vec![
        ex(".", "../outsideroot"),
        ex("a/b", "../outsideroot"),
        ex("a/b", "b-link"),
        ex("a/b", "bad-link1"),
        ex("a/b", "bad-link2"),
        ex("a/b", "file"),
        ex("a/b/c", "c-link"),
        ex("etc-target", "etc-attack-abs-link"),
        ex("etc-target", "etc-attack-rel-link"),
    ];
    for (src, n) in [("root/a/b", "b"), ("root/a/b/c", "c"), ("root/a", "a"), ("root/a/b/c/d", "d")] {
        let dst = format!("outside/landing/moved-{n}");
        v.push((Mutation::Rename { src: src.into(), dst: dst.clone() }, Some(Mutation::Rename { src: dst, dst: src.into() })));
    }
    for (src, n) in [("root/a/b", "b"), ("root/a/b/c", "c"), ("root/a", "a")] {
        let dst = format!("root (deleted)/{n}");
        v.push((Mutation::Rename { src: src.into(), dst: dst.clone() }, Some(Mutation::Rename { src: dst, dst: src.into() })));
    }
    // into the sibling named root+"a": the moved directory's parent chain then *spells* like the expected path
    v.push((Mutation::Rename { src: "root/a/b/c".into(), dst: "roota/b/c".into() }, Some(Mutation::Rename { src: "roota/b/c".into(), dst: "root/a/b/c".into() })));
    v.push((Mutation::Exchange { a: "root/a/b".into(), b: "roota/b".into() }, Some(Mutation::Exchange { a: "root/a/b".into(), b: "roota/b".into() })));
    for (path, target) in [
        ("root/a/b", "/mnt/w/outside/landing/a/b"),
        ("root/a/b", "../../outside/landing/a/b"),
        ("root/a/b/c", "/mnt/w/outside"),
        ("root/a", "../outside/landing/a"),
        ("root/etc", "/mnt/w/etc"),
        ("root/a/b/c/d", "../../../../../secret"),
        // names the *library* is about to create (mkdir_all("a/b/c/d/e/f"), create_file("a/b/c/new")):
        // the exchange only takes effect in the windows after the creation
        ("root/a/b/c/d/e", "/mnt/w/outside/landing"),
        ("root/a/b/c/d/e", "../../../../../outside/landing/a"),
        ("root/a/b/c/d/e/f", "/mnt/w/outside"),
        ("root/a/b/c/new", "/mnt/w/outside/secret"),
        ("root/a/x", "/mnt/w/outside/landing"),
    ] {
        let park = format!("outside/landing/parked-{}", path.replace('/', "_"));
        v.push((Mutation::SwapInSymlink { path: path.into(), target: target.into(), park: park.clone() }, Some(Mutation::Exchange { a: path.into(), b: park })));
    }
    v.push((Mutation::Exchange { a: "root/a/b".into(), b: "outside/landing/a/b".into() }, Some(Mutation::Exchange { a: "root/a/b".into(), b: "outside/landing/a/b".into() })));
    v.push((Mutation::Exchange { a: "root/etc".into(), b: "etc".into() }, Some(Mutation::Exchange { a: "root/etc".into(), b: "etc".into() })));
    v.push((Mutation::Rename { src: "root".into(), dst: "root-moved".into() }, Some(Mutation::Rename { src: "root-moved".into(), dst: "root".into() })));
    v
}

/// compound attacker actions (several mutations in one window): move a
/// directory out of the root and plant never-inside objects under the names
/// the lookup is about to use
pub fn race_compound() -> Vec<Vec<Mutation>> {
    let mv = |src: &str, dst: &str| Mutation::Rename { src: src.into(), dst: dst.into() };
    vec![
        vec![mv("root/a/b", "outside/landing/gone-b"), Mutation::Unlink { path: "outside/landing/gone-b/lnk".into() }, Mutation::Symlink { path: "outside/landing/gone-b/lnk".into(), target: "NEVER-INSIDE-BODY-1".into() }],
        vec![mv("root/a", "outside/landing/gone-a"), Mutation::Unlink { path: "outside/landing/gone-a/lnk".into() }, Mutation::Symlink { path: "outside/landing/gone-a/lnk".into(), target: "/mnt/w/secret".into() }],
        vec![mv("root/a/b/c/d", "outside/landing/gone-d"), Mutation::Unlink { path: "outside/landing/gone-d/leaf".into() }, Mutation::MkFile { path: "outside/landing/gone-d/leaf".into(), content: "NEVER-INSIDE-LEAF".into() }],
        vec![mv("root/a/b/c", "outside/landing/gone-c"), mv("outside/landing/gone-c/d", "outside/landing/gone-c/d-orig"), mv("outside/landing/a/b/c/d", "outside/landing/gone-c/d")],
        vec![mv("root/etc", "outside/landing/gone-etc"), Mutation::Unlink { path: "outside/landing/gone-etc/passwd".into() }, mv("outside/landing/etc/passwd", "outside/landing/gone-etc/passwd")],
    ]
}

pub fn race_lookups() -> Vec<OpSpec> {
    let o = OpSpec::new;
    let s = |x: &str| x.to_string();
    vec![
        o(Op::Resolve { path: s("a/b/c/d/../../../../etc/passwd"), nofollow: false }),
        o(Op::Resolve { path: s("a/b/c/d/../../../.."), nofollow: false }),
        o(Op::Resolve { path: s("a/b/c/d/../../../../../file"), nofollow: false }),
        o(Op::Resolve { path: s("a/b/c/../../b-link"), nofollow: true }),
        o(Op::OpenSubpath { path: s("c-link/.."), flags: libc::O_RDONLY }),
        o(Op::OpenSubpath { path: s("a/b/c/d/leaf"), flags: libc::O_RDONLY }),
        o(Op::Readlink { path: s("a/b/../../b-link"), bufsz: 4096 }),
        o(Op::Resolve { path: s("etc-attack-rel-link/passwd"), nofollow: false }),
        o(Op::Resolve { path: s("a/b/c/d/leaf"), nofollow: false }).c(),
        o(Op::Resolve { path: s("b-link/c/d/../../../etc/passwd"), nofollow: false }),
        o(Op::Readlink { path: s("a/b/lnk"), bufsz: 4096 }),
        o(Op::Readlink { path: s("a/lnk"), bufsz: 4096 }).c(),
        o(Op::Resolve { path: s("a/b/lnk"), nofollow: true }),
        o(Op::OpenSubpath { path: s("etc/passwd"), flags: libc::O_RDONLY }),
        // roots with NO_SYMLINKS (paths without links, with '..')
        o(Op::Resolve { path: s("a/b/c/d/../../../../etc/passwd"), nofollow: false }).nosym(true),
        o(Op::OpenSubpath { path: s("a/b/../b/c/../../../file"), flags: libc::O_RDONLY }).nosym(true),
        // one-shot opens whose flag set may select a different route through the library than the
        // plain lookup + reopen (non-following, directory-only, path-only), with the last step a '..'
        // or a leaf: the final step needs the same re-verification as every other one
        o(Op::OpenSubpath { path: s("a/b/c/.."), flags: libc::O_RDONLY | libc::O_NOFOLLOW }),
        o(Op::OpenSubpath { path: s("a/b/c/d/.."), flags: libc::O_RDONLY | libc::O_NOFOLLOW | libc::O_DIRECTORY }).c(),
        o(Op::OpenSubpath { path: s("a/b/c/../.."), flags: libc::O_PATH | libc::O_NOFOLLOW }),
        o(Op::OpenSubpath { path: s("a/b/c/d/leaf"), flags: libc::O_RDONLY | libc::O_NOFOLLOW | libc::O_NONBLOCK }),
        o(Op::OpenSubpath { path: s("a/b/c/d/../d/.."), flags: libc::O_RDONLY | libc::O_DIRECTORY }),
    ]
}

pub fn race_mutating_ops() -> Vec<OpSpec> {
    let o = OpSpec::new;
    let s = |x: &str| x.to_string();
    vec![
        o(Op::CreateFile { path: s("a/b/c/new"), flags: libc::O_RDWR, mode: 0o644 }),
        o(Op::Create { path: s("a/b/link"), kind: CreateKind::Symlink(s("target")) }),
        o(Op::Create { path: s("a/b/c/d/../newdir"), kind: CreateKind::Dir(0o755) }),
        o(Op::Create { path: s("a/b/hl"), kind: CreateKind::Hardlink(s("a/b/c/d/leaf")) }),
        o(Op::RemoveFile { path: s("a/b/c/d/leaf") }),
        o(Op::RemoveDir { path: s("a/b/c/d") }),
        o(Op::Rename { src: s("a/b/c"), dst: s("a/x"), flags: 0 }),
        o(Op::Rename { src: s("a/b/c/d/leaf"), dst: s("etc/moved"), flags: 0 }),
        o(Op::MkdirAll { path: s("a/b/c/d/e/f"), mode: 0o755 }),
        o(Op::RemoveAll { path: s("a/b") }),
        o(Op::RemoveAll { path: s("a") }).c(),
        o(Op::CreateFile { path: s("etc/../a/b/c/new"), flags: libc::O_WRONLY | libc::O_TRUNC, mode: 0o600 }).c(),
        // '..' that lexically returns to the root, directly followed by components that do not exist
        // yet: the lookup stops early (no final check of a complete walk), and whatever directory it
        // stopped in is the one the creation happens in
        o(Op::MkdirAll { path: s("a/../pwn/x"), mode: 0o755 }),
        o(Op::MkdirAll { path: s("a/b/../../pwn2"), mode: 0o711 }).c(),
        o(Op::Create { path: s("a/b/../../newd"), kind: CreateKind::Dir(0o755) }),
        // the other dimensions of the calls: rename flags, a source and a destination that both walk
        // through '..', exclusive creation, removal of a spelling that re-enters its own parent
        o(Op::Rename { src: s("a/b/c/d/leaf"), dst: s("a/b/../../moved2"), flags: libc::RENAME_NOREPLACE }),
        o(Op::Rename { src: s("a/b/c/../c/d"), dst: s("etc-target"), flags: libc::RENAME_EXCHANGE }).c(),
        o(Op::RemoveAll { path: s("a/b/../b/c") }),
        o(Op::CreateFile { path: s("a/b/../../topnew"), flags: libc::O_WRONLY | libc::O_EXCL, mode: 0o640 }),
        o(Op::Create { path: s("a/../hl2"), kind: CreateKind::Hardlink(s("a/b/c/d/../d/leaf")) }),
    ]
}

/// Is this returned object one that was never inside the root?
pub fn result_escaped(ctx: &RunCtx, rec: &OpRecord) -> Option<String> {
    match &rec.outcome {
        Outcome::Fd(_) => {
            let f = rec.facts.as_ref()?;
            if f.ino.0 != ctx.world.dev {
                return Some(format!("returned descriptor is not on the world's filesystem at all: {} (dev {:#x})", f.path, f.ino.0));
            }
            match f.zone {
                Some(Zone::Outside) => Some(format!("returned descriptor refers to never-inside object {:?} (now at {})", f.label, f.path)),
                Some(Zone::Inside) => None,
                None => None, // unlabelled: reported separately as a harness note
            }
        }
        Outcome::Bytes(b) => body_escaped(ctx.world, b),
        Outcome::CBytes { buf, ret, .. } if *ret as usize <= buf.len() => body_escaped(ctx.world, &buf[..*ret as usize]),
        _ => None,
    }
}

fn body_escaped(world: &World, body: &[u8]) -> Option<String> {
    // attribute the body to the link(s) carrying it
    let mut any = false;
    let mut all_outside = true;
    let mut names = Vec::new();
    for l in world.labels.values() {
        if l.body.as_deref() == Some(body) {
            any = true;
            names.push(l.name.clone());
            if l.zone != Zone::Outside {
                all_outside = false;
            }
        }
    }
    if any && all_outside {
        Some(format!("returned the link body {:?} which only never-inside links carry ({:?})", String::from_utf8_lossy(body), names))
    } else {
        None
    }
}

fn is_mutating(ev: &Ev) -> bool {
    match ev.nr {
        libc::SYS_mkdirat | libc::SYS_mknodat | libc::SYS_unlinkat | libc::SYS_symlinkat | libc::SYS_linkat | libc::SYS_renameat | libc::SYS_renameat2 => true,
        libc::SYS_mkdir | libc::SYS_rmdir | libc::SYS_unlink | libc::SYS_rename | libc::SYS_link | libc::SYS_symlink | libc::SYS_mknod | libc::SYS_truncate | libc::SYS_creat => true,
        libc::SYS_openat | libc::SYS_open | libc::SYS_openat2 => {
            let f = ev.oflags.map(|x| x.0 as i32).unwrap_or(0);
            let path_only = f & libc::O_PATH != 0;
            !path_only && (f & (libc::O_CREAT | libc::O_TRUNC) != 0 || f & libc::O_ACCMODE != libc::O_RDONLY)
        }
        _ => false,
    }
}

/// Trace clauses of C02/C03: (clause, detail, step)
pub fn seam_containment(out: &RunOut, check_reads: bool, check_mutations: bool) -> Vec<(String, String, usize)> {
    let mut v = Vec::new();
    let pid = unsafe { libc::getpid() };
    for ev in &out.trace {
        if !ev.lib {
            continue;
        }
        if check_reads && ev.nr == libc::SYS_readlinkat && ev.executed() {
            if let Some(d) = &ev.dir {
                if let Prov::Tree(Zone::Outside, name) = &d.prov {
                    if d.ftype == libc::S_IFLNK || ev.path.as_deref().map(|p| !p.is_empty()).unwrap_or(false) {
                        v.push(("read-never-inside-link".to_string(), format!("readlinkat on never-inside object {name:?}: {}", ev.render(&out.tids, pid)), ev.step));
                    }
                }
            }
        }
        if check_mutations && is_mutating(ev) && ev.executed() {
            let two = matches!(ev.nr, libc::SYS_linkat | libc::SYS_renameat | libc::SYS_renameat2);
            let mut dirs = vec![ev.dir.as_ref()];
            if two {
                dirs.push(ev.dir2.as_ref());
            }
            for d in dirs.into_iter().flatten() {
                match &d.prov {
                    Prov::Tree(Zone::Outside, name) => v.push((
                        "mutates-entry-of-never-inside-dir".to_string(),
                        format!("mutating call names a directory that was never inside the root ({name:?}): {}", ev.render(&out.tids, pid)),
                        ev.step,
                    )),
                    Prov::Cwd | Prov::Other => v.push((
                        "mutates-outside-the-tree".to_string(),
                        format!("mutating call is not relative to a tree directory: {}", ev.render(&out.tids, pid)),
                        ev.step,
                    )),
                    _ => {}
                }
            }
        }
    }
    v
}

/// probes recognised from error descriptions
pub fn probes(out: &mut RunOut) {
    let mut p = Vec::new();
    for r in &out.records {
        if let Outcome::Err { desc, .. } = &r.outcome {
            if desc.contains("check next '..' component didn't escape") {
                p.push("post_dotdot_check_fired");
            }
            if desc.contains("check final handle didn't escape") {
                p.push("final_check_fired");
            }
            if desc.contains("root moved during lookup") {
                p.push("root_moved_fired");
            }
            if desc.contains("racing filesystem changes caused openat2 to abort") {
                p.push("openat2_eagain_exhausted");
            }
        }
    }
    for x in p {
        out.probe(x);
    }
}

/// The seeded attacker used in swarm phases.
pub struct Attacker<'a> {
    pub spec: &'a WorldSpec,
    pub seq: usize,
    pub escaped: Vec<(usize, String)>,
    /// catalogue to draw from instead of the generic generator (race world)
    pub catalogue: Option<Vec<(Mutation, Option<Mutation>)>>,
    pub compound: Vec<Vec<Mutation>>,
    pub pending_undo: Vec<Mutation>,
}

impl<'a> Attacker<'a> {
    pub fn new(spec: &'a WorldSpec) -> Attacker<'a> {
        Attacker { spec, seq: 0, escaped: Vec::new(), catalogue: None, compound: Vec::new(), pending_undo: Vec::new() }
    }
}

impl Hooks for Attacker<'_> {
    fn attack(&mut self, rng: &mut Rng, _world: &World, _ev: &Ev) -> Vec<Mutation> {
        self.seq += 1;
        // flip-flop: sometimes undo an earlier mutation
        if !self.pending_undo.is_empty() && rng.chance(1, 3) {
            return vec![self.pending_undo.pop().unwrap()];
        }
        if !self.compound.is_empty() && rng.chance(1, 6) {
            return rng.pick(&self.compound).clone();
        }
        let n = if rng.chance(1, 5) { 2 } else { 1 };
        let mut v = Vec::new();
        for _ in 0..n {
            match &self.catalogue {
                Some(cat) => {
                    let (m, undo) = rng.pick(cat).clone();
                    if let Some(u) = undo {
                        self.pending_undo.push(u);
                    }
                    v.push(m);
                }
                None => v.push(gen::gen_mutation(rng, self.spec, self.seq)),
            }
        }
        v
    }
    fn end_op(&mut self, ctx: &mut RunCtx, rec: &mut OpRecord) {
        if let Some(d) = result_escaped(ctx, rec) {
            self.escaped.push((rec.idx, d));
        }
    }
}
