//! C15 - the emulated resolver enforces fs.protected_symlinks exactly like
//! the kernel. A finite matrix, enumerated completely.
use super::*;
use crate::case::{mk_violation, Case};
use crate::coord::{self, Batch, Stats};
use crate::ops::{Facade, Op, OpSpec, Outcome};
use crate::world::{Entry, WorldSpec};
use serde_json::{json, Map, Value};

pub const DIR_MODES: [u32; 4] = [0o755, 0o1755, 0o777, 0o1777];
pub const UIDS: [u32; 3] = [0, 1000, 1001];

#[derive(Clone, Debug)]
pub struct Cell {
    pub dir_mode: u32,
    pub dir_uid: u32,
    pub link_uid: u32,
    pub caller: u32,
    pub trailing: bool,
    pub facade_c: bool,
    /// spelling of the position: trailing `d/l`, `d/l/`, `d/l//`, `d/l///`; intermediate `d/l/file`, `d/l/.`, `d/l//file`, `d/l/./file`
    pub alt: u8,
}

pub fn cells() -> Vec<Cell> {
    let mut v = Vec::new();
    for dir_mode in DIR_MODES {
        for dir_uid in UIDS {
            for link_uid in UIDS {
                for caller in UIDS {
                    for trailing in [true, false] {
                        for facade_c in [false, true] {
                            for alt in 0u8..4 {
                                v.push(Cell { dir_mode, dir_uid, link_uid, caller, trailing, facade_c, alt });
                            }
                        }
                    }
                }
            }
        }
    }
    v
}

/// Transcription of may_follow_link() from fs/namei.c *and of its call site*: pick_link() applies it
/// only under WALK_TRAILING, i.e. to a link that is the last component of what is left to walk (the
/// final component of the path, or of the body of such a link; trailing slashes do not change that).
/// A link in the middle of a path is followed without the check. (Verified on this kernel with the
/// real sysctl switched on for two seconds: `sticky/evil` and `sticky/evil/` EACCES, `sticky/evil/inner` ok.)
pub fn kernel_rule(sysctl: u32, c: &Cell) -> bool {
    if sysctl == 0 || !c.trailing {
        return true;
    }
    // allowed if the follower owns the link
    if c.caller == c.link_uid {
        return true;
    }
    // allowed if the parent directory is not both sticky and world-writable
    if c.dir_mode & 0o1002 != 0o1002 {
        return true;
    }
    // allowed if the parent directory and the link have the same owner
    if c.dir_uid == c.link_uid {
        return true;
    }
    false
}

pub fn plan(tier: &str, seed: u64) -> Vec<Batch> {
    let n = cells().len() as u64;
    let mut v = Vec::new();
    for sysctl in [0u32, 1] {
        let mut uni = UniCfg::e();
        uni.psym = Some(sysctl);
        let shards = 4;
        for s in 0..shards {
            v.push(Batch { check: "C15".into(), phase: "matrix".into(), uni: uni.clone(), seed, lo: s * n / shards, hi: (s + 1) * n / shards, fresh: false, tier: tier.into(), extra: json!({"sysctl": sysctl}) });
        }
    }
    // history: a transient fault at any system call of the *first* lookup of a
    // process (where the library reads and caches the sysctl) must not change
    // what later lookups are allowed to follow
    for sysctl in [1u32, 0] {
        let mut u1 = UniCfg::e();
        u1.psym = Some(sysctl);
        let total = 2 * FU_MAX_STEP * FU_ERRNOS.len() as u64;
        let stride = if tier == "thorough" { 1 } else if sysctl == 1 { 2 } else { 4 };
        let chunk = 64 * stride;
        let mut lo = 0;
        while lo < total {
            v.push(Batch { check: "C15".into(), phase: "first-use-fault".into(), uni: u1.clone(), seed, lo, hi: (lo + chunk).min(total), fresh: true, tier: tier.into(), extra: json!({"stride": stride}) });
            lo += chunk;
        }
    }
    // an attacker exchanging the link between the ownership check and the use (every window), and two
    // threads racing through the first use (every switch point): sysctl on
    {
        let mut u1 = UniCfg::e();
        u1.psym = Some(1);
        v.push(Batch { check: "C15".into(), phase: "swap".into(), uni: u1.clone(), seed, lo: 0, hi: 4, fresh: false, tier: tier.into(), extra: Value::Null });
        // a link in one directory whose (absolute) body starts with a link in another directory with
        // other mode bits / owner: every link is judged in the directory that holds *it*
        v.push(Batch { check: "C15".into(), phase: "chained".into(), uni: u1.clone(), seed, lo: 0, hi: chained_cells().len() as u64, fresh: false, tier: tier.into(), extra: Value::Null });
        let total = 2 * CF_MAX_STEP;
        let stride = if tier == "thorough" { 1 } else { 2 };
        let mut lo = 0;
        while lo < total {
            v.push(Batch { check: "C15".into(), phase: "first-use-race".into(), uni: u1.clone().workers(2), seed, lo, hi: (lo + 40).min(total), fresh: true, tier: tier.into(), extra: json!({"stride": stride}) });
            lo += 40;
        }
    }
    // the kernel backend never consults the emulation: its cells must all be allowed
    // when the machine's own sysctl is 0 and must follow the rule when it is 1
    let mut uk = UniCfg::k();
    uk.psym = None;
    v.push(Batch { check: "C15".into(), phase: "kernel".into(), uni: uk, seed, lo: 0, hi: n, fresh: false, tier: tier.into(), extra: Value::Null });
    v
}

pub const FU_MAX_STEP: u64 = 260;
pub const FU_ERRNOS: [i32; 5] = [libc::EMFILE, libc::ENOMEM, libc::EIO, libc::EACCES, libc::ENOENT];

/// (variant, fault step, errno) of a first-use-fault run
pub fn fu_decode(idx: u64) -> (usize, usize, i32) {
    let e = FU_ERRNOS[(idx % FU_ERRNOS.len() as u64) as usize];
    let r = idx / FU_ERRNOS.len() as u64;
    ((r / FU_MAX_STEP) as usize, (r % FU_MAX_STEP) as usize, e)
}

pub fn fu_cell(variant: usize) -> Cell {
    // sticky world-writable directory of root; variant 0: somebody else's link (refused), 1: the caller's own (allowed)
    Cell { dir_mode: 0o1777, dir_uid: 0, link_uid: if variant == 0 { 1001 } else { 1000 }, caller: 1000, trailing: true, facade_c: false, alt: 0 }
}

pub fn fu_case(uni: &UniCfg, idx: u64) -> Case {
    let (variant, step, errno) = fu_decode(idx);
    let c = fu_cell(variant);
    let mut case = Case::new("C15", "first-use-fault", uni.clone());
    case.fresh = true;
    case.world = Some(world_for(&c));
    case.jobs = vec![vec![
        OpSpec::new(Op::SetEuid { uid: c.caller }),
        OpSpec::new(Op::Resolve { path: "d/l".into(), nofollow: false }),
        OpSpec::new(Op::Resolve { path: "d/l/".into(), nofollow: false }),
        // (Rust facade only: when the fault leaves the process without any /proc handle the library
        // panics - C10's known finding - and through the C API that would abort the universe)
        OpSpec::new(Op::Resolve { path: "d/l".into(), nofollow: false }),
        OpSpec::new(Op::SetEuid { uid: 0 }),
    ]];
    case.plan.script = vec![crate::sup::Dec { step, fault: Some(crate::sup::Fault::Errno(errno)), ..Default::default() }];
    case.extra = json!({"dir_mode": "1777", "dir_uid": c.dir_uid, "link_uid": c.link_uid, "caller": c.caller, "position": "trailing", "variant": variant, "fault_step": step, "errno": sys::errname(errno)});
    case
}

fn run_first_use(u: &mut Universe, b: &Batch, idx: u64, st: &mut Stats) {
    let case = if b.phase == "replay" {
        match Case::from_json(&b.extra["case"]) {
            Some(c) => c,
            None => return,
        }
    } else {
        let stride = b.extra["stride"].as_u64().unwrap_or(1);
        if idx % stride != (b.seed % stride) {
            return;
        }
        fu_case(&b.uni, idx)
    };
    let variant = case.extra["variant"].as_u64().unwrap_or(0) as usize;
    let allowed = kernel_rule(case.uni.psym.unwrap_or(1), &fu_cell(variant));
    let out = run_case(u, &case, &mut crate::sup::NoHooks, false);
    if let Some(e) = &out.harness_error {
        st.harness_errors.push(format!("first-use-fault {idx}: {e}"));
        return;
    }
    st.merge_runout(&out);
    let lookups: Vec<&crate::sup::OpRecord> = out.records.iter().filter(|r| matches!(r.spec.op, Op::Resolve { .. })).collect();
    if lookups.len() < 3 {
        return;
    }
    if lookups[0].faults_inside == 0 {
        st.count("first_use.fault_did_not_land_in_first_lookup", 1);
        return;
    }
    st.evaluations += 1;
    st.nontrivial.insert(case.hash());
    st.count("first_use.fault_landed_in_first_lookup", 1);
    st.count(&format!("first_use.faulted_lookup.{}", lookups[0].outcome.class().split(':').take(3).collect::<Vec<_>>().join(":")), 1);
    let mut found: Vec<(String, String)> = Vec::new();
    for (k, r) in lookups.iter().enumerate() {
        match &r.outcome {
            Outcome::Fd(_) if !allowed => found.push((
                "follows-where-kernel-refuses:after-first-use-fault".into(),
                format!("lookup #{k} followed a link the kernel rule refuses (sysctl=1), after {} was injected at step {} of the process's first lookup: {}", case.extra["errno"], case.extra["fault_step"], case.extra),
            )),
            Outcome::Err { errno, kind, desc } if k > 0 && (allowed || *errno != libc::EACCES) => found.push((
                if allowed { "refuses-where-kernel-allows:after-first-use-fault".into() } else { "unexpected-outcome:after-first-use-fault".into() },
                format!("fault-free lookup #{k} after a faulted first lookup: {} ({kind}) {desc}; {}", sys::errname(*errno), case.extra),
            )),
            // a panic is C10's matter (and its known finding), not a statement about protected symlinks
            Outcome::Panic(_) => st.count("first_use.lookup_panicked(C10)", 1),
            _ => {}
        }
    }
    let mut seen = std::collections::BTreeSet::new();
    for (clause, detail) in found {
        if seen.insert(clause.clone()) {
            let v = mk_violation(&case, &out, "C15", &clause, "resolve", detail);
            st.violation(&v);
        }
    }
}

pub const CF_MAX_STEP: u64 = 240;

/// (mode of the root R, mode of D = R/d, owner of l2 in R, absolute body for l1?, trailing?, C facade?)
/// (.., trailing slashes: 0 none, 1 after the path, 2 at the end of l1's body, 3 both)
pub fn chained_cells() -> Vec<(u32, u32, u32, bool, bool, bool, u8)> {
    let mut v = Vec::new();
    for (rmode, dmode) in [(0o1777u32, 0o755u32), (0o755, 0o1777), (0o1777, 0o1777), (0o755, 0o755), (0o777, 0o1777), (0o1777, 0o777)] {
        for l2_owner in [1000u32, 1001, 0] {
            for abs in [true, false] {
                for trailing in [true, false] {
                    for c in [false, true] {
                        for sl in if trailing { 0u8..4 } else { 0u8..1 } {
                            v.push((rmode, dmode, l2_owner, abs, trailing, c, sl));
                        }
                    }
                }
            }
        }
    }
    v
}

fn run_chained(u: &mut Universe, b: &Batch, idx: u64, st: &mut Stats) -> bool {
    let (rmode, dmode, l2_owner, abs, trailing, c, sl) = chained_cells()[idx as usize];
    let caller = 1000u32;
    let mut w = WorldSpec::default();
    w.push(Entry::dir("root").mode(rmode).own(0, 0));
    w.push(Entry::dir("root/tgt").mode(0o755));
    w.push(Entry::file("root/tgt/file", "TARGET").mode(0o644));
    w.push(Entry::link("root/l2", "tgt").own(l2_owner, l2_owner));
    w.push(Entry::dir("root/d").mode(dmode).own(0, 0));
    // l1 is the caller's own link: always allowed where it sits
    let body = format!("{}{}", if abs { "/l2" } else { "../l2" }, if sl & 2 != 0 { "/" } else { "" });
    w.push(Entry::link("root/d/l1", &body).own(caller, caller));
    let mut case = Case::new("C15", "chained", b.uni.clone());
    case.world = Some(w);
    let mut o = OpSpec::new(Op::Resolve { path: if trailing { format!("d/l1{}", if sl & 1 != 0 { "/" } else { "" }) } else { "d/l1/file".into() }, nofollow: false });
    if c {
        o = o.c();
    }
    case.jobs = vec![vec![OpSpec::new(Op::SetEuid { uid: caller }), o, OpSpec::new(Op::SetEuid { uid: 0 })]];
    case.extra = json!({"root_mode": format!("{rmode:o}"), "dir_mode": format!("{dmode:o}"), "dir_uid": 0, "link_uid": l2_owner, "caller": caller, "position": "chained", "l1_body": body, "slashes": sl});
    let out = run_case(u, &case, &mut crate::sup::NoHooks, false);
    if let Some(e) = &out.harness_error {
        st.harness_errors.push(format!("chained {idx}: {e}"));
        return false;
    }
    st.evaluations += 1;
    st.merge_runout(&out);
    st.nontrivial.insert(case.hash());
    // l1 (caller's own) is always allowed; l2 is judged in the root directory R
    let l2_cell = Cell { dir_mode: rmode, dir_uid: 0, link_uid: l2_owner, caller, trailing, facade_c: c, alt: 0 };
    let allowed = kernel_rule(1, &l2_cell);
    if let Some(r) = out.records.iter().find(|r| matches!(r.spec.op, Op::Resolve { .. })) {
        st.count(&format!("chained.{}", if allowed { "rule_allows" } else { "rule_refuses" }), 1);
        let bad = match &r.outcome {
            Outcome::Fd(_) if !allowed => Some(("follows-where-kernel-refuses:chained-links", format!("l2 (owner {l2_owner}) sits in the root directory (mode {rmode:o}) and must be refused for caller {caller}; it was reached through d/l1 (d has mode {dmode:o}) and followed"))),
            Outcome::Err { errno, .. } if allowed && *errno == libc::EACCES => Some(("refuses-where-kernel-allows:chained-links", format!("l2 (owner {l2_owner}) sits in the root directory (mode {rmode:o}) where following it is allowed; reached through d/l1 (d has mode {dmode:o}) it was refused"))),
            Outcome::Panic(m) => Some(("panic", m.clone())),
            Outcome::Fd(_) | Outcome::Err { .. } => None,
            o => Some(("unexpected-outcome", format!("{o:?}"))),
        };
        if let Some((clause, detail)) = bad {
            let v = mk_violation(&case, &out, "C15", clause, "resolve", detail);
            st.violation(&v);
        }
    }
    !u.poisoned
}

fn swap_world() -> WorldSpec {
    let mut w = WorldSpec::default();
    w.push(Entry::dir("root").mode(0o755));
    w.push(Entry::file("root/tgtA/file", "A-TARGET").mode(0o644));
    w.push(Entry::file("root/tgtB/file", "B-TARGET").mode(0o644));
    w.push(Entry::dir("root/d").mode(0o1777).own(0, 0));
    // l: somebody else's link (refused for caller 1000); l2: the caller's own (allowed)
    w.push(Entry::link("root/d/l", "../tgtA").own(1001, 1001));
    w.push(Entry::link("root/d/l2", "../tgtB").own(1000, 1000));
    w
}

/// the link is exchanged for another one between the resolver's look at it and its use
fn run_swap(u: &mut Universe, b: &Batch, idx: u64, st: &mut Stats) -> bool {
    let (path, facade_c) = [("d/l/", false), ("d/l", false), ("d/l", true), ("d/./l/../l", false)][idx as usize % 4];
    let mk = |script: Vec<crate::sup::Dec>| {
        let mut case = Case::new("C15", "swap", b.uni.clone());
        case.world = Some(swap_world());
        let mut o = OpSpec::new(Op::Resolve { path: path.into(), nofollow: false });
        if facade_c {
            o = o.c();
        }
        case.jobs = vec![vec![OpSpec::new(Op::SetEuid { uid: 1000 }), o, OpSpec::new(Op::SetEuid { uid: 0 })]];
        case.plan.script = script;
        case.extra = json!({"dir_mode": "1777", "dir_uid": 0, "link_uid": 1001, "caller": 1000, "position": "swap"});
        case
    };
    let out0 = run_case(u, &mk(vec![]), &mut crate::sup::NoHooks, false);
    if let Some(e) = &out0.harness_error {
        st.harness_errors.push(format!("swap {idx}: {e}"));
        return false;
    }
    let wins: Vec<usize> = out0.trace.iter().filter(|e| e.lib && e.op == Some(1) && e.nr != crate::seam::HYPERCALL_NR && e.nr != libc::SYS_futex).map(|e| e.step).collect();
    for w in wins {
        for back in [false, true] {
            let mut script = vec![crate::sup::Dec { step: w, attack: vec![crate::world::Mutation::Exchange { a: "root/d/l".into(), b: "root/d/l2".into() }], ..Default::default() }];
            if back {
                script.push(crate::sup::Dec { step: w + 1, attack: vec![crate::world::Mutation::Exchange { a: "root/d/l".into(), b: "root/d/l2".into() }], ..Default::default() });
            }
            let case = mk(script);
            let out = run_case(u, &case, &mut crate::sup::NoHooks, false);
            if let Some(e) = &out.harness_error {
                st.harness_errors.push(format!("swap {idx}@{w}: {e}"));
                return false;
            }
            st.evaluations += 1;
            st.merge_runout(&out);
            st.nontrivial.insert(case.hash() ^ ((w as u64) << 1 | back as u64));
            st.count("swap.windows", 1);
            if let Some(r) = out.records.iter().find(|r| matches!(r.spec.op, Op::Resolve { .. })) {
                st.count(&format!("swap.outcome.{}", r.outcome.class().split(':').take(3).collect::<Vec<_>>().join(":")), 1);
                if let (Outcome::Fd(_), Some(f)) = (&r.outcome, &r.facts) {
                    if f.path.contains("/tgtA") {
                        let v = mk_violation(&case, &out, "C15", "follows-where-kernel-refuses:link-exchanged-during-the-lookup", "resolve", format!("the lookup followed d/l -> ../tgtA (owned by uid 1001 in a sticky world-writable directory, caller uid 1000, sysctl=1) and returned {}; the attacker exchanged d/l with the caller's own link d/l2 at step {w}", f.path));
                        st.violation(&v);
                    }
                }
            }
            if u.poisoned {
                return false;
            }
        }
    }
    true
}

/// two threads of a fresh process race through the first symlink lookup (where the sysctl is read
/// and cached): one switch from thread 0 to thread 1 at every step
fn run_first_use_race(u: &mut Universe, b: &Batch, idx: u64, st: &mut Stats) {
    let stride = b.extra["stride"].as_u64().unwrap_or(1);
    let case = if b.phase == "replay" {
        match Case::from_json(&b.extra["case"]) {
            Some(c) => c,
            None => return,
        }
    } else {
        if idx % stride != (b.seed % stride) {
            return;
        }
        let variant = (idx / CF_MAX_STEP) as usize;
        let step = (idx % CF_MAX_STEP) as usize;
        let c = fu_cell(variant);
        let mut case = Case::new("C15", "first-use-race", b.uni.clone());
        case.fresh = true;
        case.world = Some(world_for(&c));
        let job = |_: usize| vec![OpSpec::new(Op::SetEuid { uid: c.caller }), OpSpec::new(Op::Resolve { path: "d/l".into(), nofollow: false }), OpSpec::new(Op::SetEuid { uid: 0 })];
        case.jobs = vec![job(0), job(1)];
        case.plan.script = vec![crate::sup::Dec { step, switch_to: Some(1), ..Default::default() }];
        case.extra = json!({"dir_mode": "1777", "dir_uid": c.dir_uid, "link_uid": c.link_uid, "caller": c.caller, "position": "trailing", "variant": variant, "switch_step": step});
        case
    };
    let variant = case.extra["variant"].as_u64().unwrap_or(0) as usize;
    let allowed = kernel_rule(1, &fu_cell(variant));
    let out = run_case(u, &case, &mut crate::sup::NoHooks, false);
    if let Some(e) = &out.harness_error {
        st.harness_errors.push(format!("first-use-race {idx}: {e}"));
        return;
    }
    st.merge_runout(&out);
    if out.switches == 0 {
        st.count("first_use_race.switch_point_beyond_the_run", 1);
        return;
    }
    st.evaluations += 1;
    st.nontrivial.insert(case.hash());
    st.count("first_use_race.schedules", 1);
    for r in out.records.iter().filter(|r| matches!(r.spec.op, Op::Resolve { .. })) {
        let bad = match &r.outcome {
            Outcome::Fd(_) if !allowed => Some(("follows-where-kernel-refuses:first-use-race", format!("thread {} followed a link the kernel rule refuses (sysctl=1) while another thread was inside the first use: {}", r.thread, case.extra))),
            Outcome::Err { errno, .. } if allowed && *errno == libc::EACCES => Some(("refuses-where-kernel-allows:first-use-race", format!("thread {} got EACCES for a link the kernel rule allows: {}", r.thread, case.extra))),
            _ => None,
        };
        if let Some((clause, detail)) = bad {
            let v = mk_violation(&case, &out, "C15", clause, "resolve", detail);
            st.violation(&v);
        }
    }
}

pub fn world_for(c: &Cell) -> WorldSpec {
    let mut w = WorldSpec::default();
    w.push(Entry::dir("root").mode(0o755));
    w.push(Entry::dir("root/tgt").mode(0o755));
    w.push(Entry::file("root/tgt/file", "TARGET").mode(0o644));
    w.push(Entry::dir("root/d").mode(c.dir_mode).own(c.dir_uid, c.dir_uid));
    w.push(Entry::link("root/d/l", "../tgt").own(c.link_uid, c.link_uid));
    w
}

pub fn case_for(uni: &UniCfg, idx: usize) -> Case {
    let c = &cells()[idx];
    let mut case = Case::new("C15", "matrix", uni.clone());
    let path = match (c.trailing, c.alt) {
        (true, 0) => "d/l",
        (true, 1) => "d/l/",
        (true, 2) => "d/l//",
        (true, _) => "d/l///",
        (false, 0) => "d/l/file",
        (false, 1) => "d/l/.",
        (false, 2) => "d/l//file",
        (false, _) => "d/l/./file",
    };
    let f = if c.facade_c { Facade::C } else { Facade::Rust };
    case.world = Some(world_for(c));
    case.jobs = vec![vec![
        OpSpec::new(Op::SetEuid { uid: c.caller }),
        OpSpec::new(Op::Resolve { path: path.into(), nofollow: false }).facade(f),
        OpSpec::new(Op::SetEuid { uid: 0 }),
    ]];
    case.extra = json!({"dir_mode": format!("{:o}", c.dir_mode), "dir_uid": c.dir_uid, "link_uid": c.link_uid, "caller": c.caller, "position": if c.trailing { "trailing" } else { "intermediate" }, "alt_spelling": c.alt, "path": path});
    case
}

fn machine_sysctl() -> u32 {
    sys::read_file(b"/proc/sys/fs/protected_symlinks", 16).ok().and_then(|b| String::from_utf8_lossy(&b).trim().parse().ok()).unwrap_or(0)
}

pub fn run(u: &mut Universe, b: &Batch, st: &mut Stats) {
    if b.phase == "first-use-race" || (b.phase == "replay" && b.extra["case"]["phase"].as_str() == Some("first-use-race")) {
        for idx in b.lo..b.hi {
            run_first_use_race(u, b, idx, st);
        }
        return;
    }
    if b.phase == "chained" {
        if let Err(e) = warm_up(u) {
            st.harness_errors.push(format!("warm-up: {e}"));
            return;
        }
        for idx in b.lo..b.hi {
            coord::progress(idx);
            if !run_chained(u, b, idx, st) {
                return;
            }
        }
        return;
    }
    if b.phase == "swap" {
        if let Err(e) = warm_up(u) {
            st.harness_errors.push(format!("warm-up: {e}"));
            return;
        }
        for idx in b.lo..b.hi {
            coord::progress(idx);
            if !run_swap(u, b, idx, st) {
                return;
            }
        }
        return;
    }
    if b.phase == "first-use-fault" || (b.phase == "replay" && b.extra["case"]["phase"].as_str() == Some("first-use-fault")) {
        for idx in b.lo..b.hi {
            run_first_use(u, b, idx, st);
        }
        return;
    }
    if let Err(e) = warm_up(u) {
        st.harness_errors.push(format!("warm-up: {e}"));
        return;
    }
    let sysctl = match b.uni.psym {
        Some(v) => v,
        None => machine_sysctl(),
    };
    for idx in b.lo..b.hi {
        coord::progress(idx);
        let case = if b.phase == "replay" {
            match Case::from_json(&b.extra["case"]) {
                Some(c) => c,
                None => return,
            }
        } else {
            case_for(&b.uni, idx as usize)
        };
        let cell = if b.phase == "replay" {
            let e = &case.extra;
            Cell {
                dir_mode: u32::from_str_radix(e["dir_mode"].as_str().unwrap_or("755"), 8).unwrap_or(0o755),
                dir_uid: e["dir_uid"].as_u64().unwrap_or(0) as u32,
                link_uid: e["link_uid"].as_u64().unwrap_or(0) as u32,
                caller: e["caller"].as_u64().unwrap_or(0) as u32,
                trailing: e["position"].as_str() == Some("trailing"),
                facade_c: false,
                alt: e["alt_spelling"].as_u64().unwrap_or(0) as u8,
            }
        } else {
            cells()[idx as usize].clone()
        };
        let out = run_case(u, &case, &mut crate::sup::NoHooks, false);
        if let Some(e) = &out.harness_error {
            st.harness_errors.push(format!("matrix {idx}: {e}"));
            return;
        }
        st.evaluations += 1;
        st.merge_runout(&out);
        st.nontrivial.insert(case.hash());
        // the caller thread must be root again
        let rec = out.records.iter().find(|r| matches!(r.spec.op, Op::Resolve { .. }));
        let allowed = kernel_rule(sysctl, &cell);
        st.count(if allowed { "cells.rule_allows" } else { "cells.rule_refuses" }, 1);
        if let Some(r) = rec {
            let verdict = match &r.outcome {
                Outcome::Fd(_) => {
                    if allowed {
                        None
                    } else {
                        Some(("follows-where-kernel-refuses".to_string(), format!("link followed although the kernel rule refuses it: {}", case.extra)))
                    }
                }
                Outcome::Err { errno, .. } if *errno == libc::EACCES => {
                    if allowed {
                        Some(("refuses-where-kernel-allows".to_string(), format!("EACCES although the kernel rule allows following: {}", case.extra)))
                    } else {
                        None
                    }
                }
                Outcome::Panic(m) => Some(("panic".to_string(), m.clone())),
                o => Some(("unexpected-outcome".to_string(), format!("{o:?} for {}", case.extra))),
            };
            if let Some((clause, detail)) = verdict {
                let v = mk_violation(&case, &out, "C15", &clause, "resolve", detail);
                st.violation(&v);
            }
            st.count(&format!("outcome.{}", r.outcome.class()), 1);
        }
        if idx == b.lo {
            st.sample(json!({"universe": b.uni.tag(), "sysctl": sysctl, "cell": case.extra, "rule_allows": allowed, "outcome": rec.map(|r| r.outcome.class())}));
        }
        if u.poisoned {
            return;
        }
    }
}

pub fn finalise(tier: &str, seed: u64, res: coord::CheckResult) -> i32 {
    let mut extra = Map::new();
    extra.insert("matrix".into(), json!({"dir_modes": DIR_MODES.iter().map(|m| format!("{m:o}")).collect::<Vec<_>>(), "uids": UIDS, "positions": ["trailing (d/l, d/l/, d/l//, d/l///)", "intermediate (d/l/file, d/l/., d/l//file, d/l/./file)"], "facades": ["rust", "c"], "sysctl": [0, 1], "cells_per_sysctl": cells().len()}));
    extra.insert("machine_sysctl".into(), json!(machine_sysctl()));
    coord::finalise(
        "C15",
        tier,
        seed,
        "fault_enumeration",
        "a finite matrix enumerated completely: directory mode {plain, sticky, world-writable, sticky+world-writable} x directory owner x link owner x caller uid (each from {0,1000,1001}; the caller thread switches its effective uid with a raw per-thread setresuid) x link position {trailing, intermediate} x facade x sysctl value {0,1} substituted at the seam in an E universe (one universe per value, since the library caches it per process); oracle: a transcription of may_follow_link() from fs/namei.c and of its call site (pick_link() applies it only to a *trailing* link - the last component of what is left to walk; a link in the middle of a path is followed unchecked); the K universe runs the same cells against the machine's real sysctl; first-use-fault: in a fresh process (sysctl=1) one errno from {EMFILE, ENOMEM, EIO, EACCES, ENOENT} is injected at every system call of the *first* lookup - the one during which the library reads and caches the sysctl - for a refused and an allowed cell, with the sysctl on and off, and two fault-free lookups follow: a refused link is never followed and the fault-free lookups obey the rule exactly (quick: every second placement; thorough: all); chained: a link (the caller's own) in directory D whose relative or absolute body starts with a second link in the root directory R, all combinations of mode bits of R and D and owners of the second link - each link is judged where it sits; swap: the link (refused for the caller) is exchanged with the caller's own link at every window of the lookup (and back one window later): the refused link's target is never returned; first-use-race: two threads of a fresh process run the first lookup, one switch from thread 0 to thread 1 at every step; distinct = every cell is a distinct configuration",
        res,
        extra,
        vec!["the oracle is a five-line transcription of the kernel rule; the real kernel enforces it only when this machine's fs.protected_symlinks is 1 (recorded under machine_sysctl)".into()],
        true,
        &|b, run| if b.phase == "first-use-fault" { Some(fu_case(&b.uni, run)) } else { Some(case_for(&b.uni, run as usize)) },
    )
    .exit_code
}
