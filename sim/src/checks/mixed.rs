//! The mixed workload replayed by the cross-cutting monitors (C05 seam
//! automaton, C11 descriptor table): slices of every other check's phases -
//! quiescent, attacked, faulted, concurrent, first-use, procfs, C error paths.
use super::attack;
use super::*;
use crate::case::Case;
use crate::ops::{Base, Op, OpSpec, ProcCtor};
use crate::rng::{self, Rng};
use crate::sup::{Plan, Seeded};

pub const KINDS: [&str; 11] = ["lookups", "mutations", "attacked-lookups", "attacked-mutations", "single-entry", "mkdir-conc", "remove-conc", "faulted", "procfs", "c-bad-args", "reopen"];

pub fn bad_arg_ops(rng: &mut Rng) -> Vec<OpSpec> {
    let funcs = ["resolve", "resolve_nofollow", "open", "readlink", "rename", "rmdir", "unlink", "remove_all", "creat", "mkdir", "mkdir_all", "mknod", "symlink", "hardlink", "reopen", "open_root", "proc_open", "proc_readlink"];
    let classes = ["negfd", "negfd2", "atfdcwd", "atfdcwd", "nullpath", "nullpath2", "badmode", "sock", "badbase"];
    (0..6).map(|_| OpSpec::new(Op::CBadArg { func: rng.pick(&funcs).to_string(), class: rng.pick(&classes).to_string() }).c()).collect()
}

pub fn procfs_ops(rng: &mut Rng, global: bool) -> Vec<OpSpec> {
    let paths = ["status", "stat", "exe", "cwd", "root", "fd", "fd/0", "ns/mnt", "missing", "task", "../self", "self", "thread-self", "mounts", "net", "sys/kernel/ostype", "fd/0/x", "cwd/..", "attr/current", "environ"];
    let bases = [Base::Root, Base::SelfP, Base::ThreadSelf];
    let mut v = Vec::new();
    if !global {
        let ctor = *rng.pick(&[ProcCtor::New, ProcCtor::New, ProcCtor::FromPlainOpen, ProcCtor::FromOpenTree, ProcCtor::FromOpenTreeRec, ProcCtor::FromFsopen]);
        v.push(OpSpec::new(Op::ProcNew { ctor, store: 0 }));
    }
    for _ in 0..5 {
        let base = *rng.pick(&bases);
        let path = rng.pick(&paths).to_string();
        let h = if global { None } else { Some(0) };
        let flags = *rng.pick(&[libc::O_RDONLY, libc::O_PATH, libc::O_RDONLY | libc::O_DIRECTORY, libc::O_PATH | libc::O_NOFOLLOW, libc::O_RDONLY | libc::O_CREAT, libc::O_RDONLY | libc::O_NONBLOCK]) | libc::O_NONBLOCK;
        let mut o = if rng.chance(1, 4) { OpSpec::new(Op::ProcReadlink { handle: h, base, path, bufsz: 256 }) } else { OpSpec::new(Op::ProcOpen { handle: h, base, path, flags, follow: rng.chance(1, 2) }) };
        if global {
            o = o.c();
        }
        v.push(o);
    }
    v
}

/// One case of the mixed workload. `kind` selects the slice.
pub fn mixed_case(seed: u64, idx: u64, uni: &UniCfg, check: &str) -> Case {
    let mut rng = Rng::new(rng::derive(seed, "mixed", idx));
    let kind = KINDS[(idx % KINDS.len() as u64) as usize];
    let sub = idx / KINDS.len() as u64;
    let mut c = match kind {
        "lookups" => super::c01::gen_case(seed ^ 0x51, sub, uni),
        "mutations" => super::c03::gen_case(seed ^ 0x52, sub, uni, false),
        "attacked-lookups" => super::c02::gen_swarm_case(seed ^ 0x53, sub, uni),
        "attacked-mutations" => super::c03::gen_case(seed ^ 0x54, sub, uni, true),
        "single-entry" => super::c14::gen_case(seed ^ 0x55, sub, uni),
        "mkdir-conc" => super::c12::gen_conc_case(seed ^ 0x56, sub, uni),
        "remove-conc" => super::c13::gen_conc_case(seed ^ 0x57, sub, uni),
        "faulted" => {
            let scs = super::c10::scenarios();
            let sc = &scs[(sub % scs.len() as u64) as usize];
            let mut c = super::c10::scenario_case(sc, uni, false, &super::c10::Placement::None);
            c.plan = Plan { seeded: Some(Seeded { seed: rng.next(), p_switch: 0, p_attack: 0, p_fault: *rng.pick(&[20u64, 50, 100]), max_attacks: 0, pct_depth: 0 }), ..Default::default() };
            c
        }
        "procfs" => {
            let mut c = Case::new(check, "procfs", uni.clone());
            c.world = Some(warm_world());
            c.jobs = vec![procfs_ops(&mut rng, sub % 3 == 0)];
            c
        }
        "c-bad-args" => {
            let mut c = Case::new(check, "c-bad-args", uni.clone());
            c.world = Some(attack::race_world());
            c.jobs = vec![bad_arg_ops(&mut rng)];
            c
        }
        _ => {
            let mut c = Case::new(check, "reopen", uni.clone());
            c.world = Some(super::c10::basic_world());
            let target = *rng.pick(&["a/b/c/file", "a/b", "fifo", "a/link", "dir2/sub/deep/f"]);
            let nofollow = rng.chance(1, 3);
            let fl = *rng.pick(&[libc::O_RDONLY, libc::O_RDWR, libc::O_WRONLY | libc::O_APPEND, libc::O_PATH, libc::O_RDONLY | libc::O_DIRECTORY, libc::O_RDONLY | libc::O_CREAT]) | libc::O_NONBLOCK;
            let mut ops = vec![OpSpec::new(Op::Resolve { path: target.into(), nofollow }).store(1), OpSpec::new(Op::Reopen { slot: 1, flags: fl })];
            if rng.chance(1, 2) {
                ops = ops.into_iter().map(|o| o.c()).collect();
            }
            c.jobs = vec![ops];
            c
        }
    };
    // sometimes descriptor 0 is free when the operations start: the first descriptor the kernel
    // hands to the library is then 0 (a perfectly valid descriptor)
    if matches!(kind, "lookups" | "mutations" | "single-entry" | "reopen" | "procfs") && rng.chance(1, 8) && c.jobs.len() == 1 {
        c.jobs[0].insert(0, OpSpec::new(Op::Sup { muts: vec![crate::world::Mutation::CloseFd { fd: 0 }] }));
    }
    c.check = check.to_string();
    c.extra = serde_json::json!({"kind": kind, "inner": c.extra});
    c
}

pub fn workers_needed() -> usize {
    4
}
