//! C13 - remove_all removes exactly the named subtree and never follows links.
use super::*;
use crate::case::{mk_violation, Case};
use crate::coord::{self, Batch, Stats};
use crate::gen;
use crate::ops::{Facade, Op, OpSpec, Outcome};
use crate::rng::{self, Rng};
use crate::sup::{Dec, Hooks, OpRecord, Plan, RunCtx, RunOut, Seeded};
use crate::world::{Entry, Mutation, WorldSpec};
use serde_json::{json, Map, Value};

pub const PER_BATCH: u64 = 300;

pub fn plan(tier: &str, seed: u64) -> Vec<Batch> {
    let (seq, conc, two) = match tier {
        "thorough" => (400, 400, true),
        "dev" => (1, 1, false),
        _ => (40, 40, false),
    };
    let mut v = Vec::new();
    for uni in [UniCfg::k(), UniCfg::e()] {
        for i in 0..seq {
            v.push(Batch { check: "C13".into(), phase: "sequential".into(), uni: uni.clone(), seed, lo: i * PER_BATCH, hi: (i + 1) * PER_BATCH, fresh: false, tier: tier.into(), extra: Value::Null });
        }
        for i in 0..conc {
            v.push(Batch { check: "C13".into(), phase: "concurrent".into(), uni: uni.clone().workers(4), seed, lo: i * PER_BATCH, hi: (i + 1) * PER_BATCH, fresh: false, tier: tier.into(), extra: Value::Null });
        }
        for sc in 0..fault_scenarios().len() as u64 {
            v.push(Batch { check: "C13".into(), phase: "fault-enum".into(), uni: uni.clone(), seed, lo: sc, hi: sc + 1, fresh: false, tier: tier.into(), extra: Value::Null });
        }
        // "never follows links", with an attacker that swaps a directory of the
        // subtree for a link while the call runs: every (operation, swap, window)
        let n = (link_ops().len() * link_swaps().len()) as u64;
        let per = 6;
        let mut lo = 0;
        while lo < n {
            v.push(Batch { check: "C13".into(), phase: "attacked".into(), uni: uni.clone(), seed, lo, hi: (lo + per).min(n), fresh: false, tier: tier.into(), extra: Value::Null });
            lo += per;
        }
        for sc in 0..conc_scenarios().len() as u64 {
            let shards = if uni.no_openat2 { 8 } else { 4 };
            for sh in 0..shards {
                v.push(Batch {
                    check: "C13".into(),
                    phase: "preempt".into(),
                    uni: uni.clone().workers(2),
                    seed,
                    lo: sc,
                    hi: sc + 1,
                    fresh: false,
                    tier: tier.into(),
                    extra: json!({"shard": sh, "shards": shards, "two": two && !uni.no_openat2}),
                });
            }
        }
    }
    v
}

/// World of the attacked phase: a subtree to remove, and directories that are
/// *not* part of it (a sibling inside the root, a directory outside the root)
/// which a followed link would lead into.
pub fn links_world() -> WorldSpec {
    let mut w = WorldSpec::default();
    w.push(Entry::dir("root"));
    w.push(Entry::file("root/victim/x", "victim-x"));
    w.push(Entry::file("root/victim/sub/y", "victim-y"));
    w.push(Entry::file("root/victim/sub/deep/z", "victim-z"));
    w.push(Entry::file("root/victim/w", "victim-w"));
    w.push(Entry::link("root/victim/inlink", "../sibling"));
    w.push(Entry::link("root/victim/sub/outlink", "/mnt/w/outside/target"));
    w.push(Entry::file("root/sibling/precious1", "PRECIOUS-1"));
    w.push(Entry::file("root/sibling/d/precious2", "PRECIOUS-2"));
    w.push(Entry::file("root/keep/file", "KEEP"));
    w.push(Entry::file("outside/target/precious3", "PRECIOUS-3"));
    w.push(Entry::file("outside/target/d/precious4", "PRECIOUS-4"));
    w.push(Entry::dir("outside/landing"));
    w
}

pub fn link_ops() -> Vec<OpSpec> {
    vec![
        OpSpec::new(Op::RemoveAll { path: "victim".into() }),
        OpSpec::new(Op::RemoveAll { path: "victim/sub".into() }),
        OpSpec::new(Op::RemoveAll { path: "keep/../victim".into() }).c(),
    ]
}

/// (directory of the subtree that is exchanged for a link, body of the link)
pub fn link_swaps() -> Vec<Mutation> {
    let mut v = Vec::new();
    for (path, up) in [("root/victim", ""), ("root/victim/sub", "../"), ("root/victim/sub/deep", "../../")] {
        for target in [format!("{up}sibling"), "/mnt/w/outside/target".to_string(), "/mnt/w/root/sibling".to_string(), format!("{up}../outside/target"), format!("{up}sibling/d")] {
            let park = format!("outside/landing/parked-{}-{}", path.replace('/', "_"), v.len());
            v.push(Mutation::SwapInSymlink { path: path.into(), target, park });
        }
    }
    v
}

const PROTECTED: [&str; 3] = ["root/sibling", "root/keep", "outside/target"];

struct Prot {
    pre: Vec<String>,
}
impl Hooks for Prot {
    fn begin_op(&mut self, ctx: &mut RunCtx, _t: usize, _k: usize, _s: &OpSpec) {
        self.pre = PROTECTED.iter().flat_map(|p| ctx.world.full_snapshot(p)).collect();
    }
}

fn run_attacked(u: &mut Universe, b: &Batch, idx: u64, st: &mut Stats) -> bool {
    let swaps = link_swaps();
    let oi = idx as usize / swaps.len();
    let mi = idx as usize % swaps.len();
    let mk = |script: Vec<Dec>| {
        let mut c = Case::new("C13", "attacked", b.uni.clone());
        c.world = Some(links_world());
        c.jobs = vec![vec![link_ops()[oi].clone()]];
        c.plan.script = script;
        c
    };
    let mut h = Prot { pre: Vec::new() };
    let out0 = run_case(u, &mk(vec![]), &mut h, false);
    if let Some(e) = &out0.harness_error {
        st.harness_errors.push(format!("attacked {idx}: {e}"));
        return false;
    }
    let wins: Vec<usize> = out0.trace.iter().filter(|e| e.lib && e.op == Some(0) && e.nr != crate::seam::HYPERCALL_NR && e.nr != libc::SYS_futex).map(|e| e.step).collect();
    for wd in wins {
        let case = mk(vec![Dec { step: wd, attack: vec![swaps[mi].clone()], ..Default::default() }]);
        run_attacked_case(u, &case, st);
        if u.poisoned {
            return false;
        }
        st.count("attacked.windows_covered", 1);
    }
    true
}

fn run_attacked_case(u: &mut Universe, case: &Case, st: &mut Stats) {
    let mut h = Prot { pre: Vec::new() };
    let out = run_case(u, case, &mut h, false);
    if let Some(e) = &out.harness_error {
        st.harness_errors.push(format!("attacked: {e}"));
        return;
    }
    let w = crate::world::World { labels: Default::default(), dev: 0, root_ino: (0, 0), created_seq: 0 };
    let post: Vec<String> = PROTECTED.iter().flat_map(|p| w.full_snapshot(p)).collect();
    st.evaluations += 1;
    st.merge_runout(&out);
    if out.records.iter().any(|r| r.attacks_inside > 0) {
        st.nontrivial.insert(case.hash());
    }
    let mut found: Vec<(String, String)> = Vec::new();
    if h.pre != post {
        let gone: Vec<&String> = h.pre.iter().filter(|l| !post.contains(l)).take(4).collect();
        found.push(("followed-link-and-removed-target".into(), format!("after remove_all with a directory of the subtree swapped for a link, entries that were never part of the subtree changed: {gone:?}")));
    }
    for r in &out.records {
        if let Outcome::Panic(m) = &r.outcome {
            found.push(("panic".into(), m.clone()));
        }
    }
    for (clause, detail) in found {
        let v = mk_violation(case, &out, "C13", &clause, "remove_all", detail);
        st.violation(&v);
    }
}

pub fn deep_tree() -> WorldSpec {
    let mut w = WorldSpec::default();
    w.push(Entry::dir("root"));
    w.push(Entry::file("secret", "TOP-SECRET"));
    w.push(Entry::dir("outside"));
    w.push(Entry::file("outside/keep", "OUTSIDE-KEEP"));
    w.push(Entry::file("root/sib", "SIBLING"));
    w.push(Entry::dir("root/other/dir"));
    w.push(Entry::file("root/other/dir/f", "OTHER"));
    for a in ["u", "v"] {
        for b in ["p", "q"] {
            w.push(Entry::dir(&format!("root/t/{a}/{b}")));
            w.push(Entry::file(&format!("root/t/{a}/{b}/f"), "x"));
        }
        w.push(Entry::file(&format!("root/t/{a}/file"), "y"));
    }
    w.push(Entry::link("root/t/to-sib", "../sib"));
    w.push(Entry::link("root/t/u/to-parent", ".."));
    w.push(Entry::link("root/t/u/to-other", "../../other"));
    w.push(Entry::link("root/t/v/to-outside", "/mnt/w/outside"));
    w.push(Entry::link("root/t/v/to-outside-rel", "../../../outside"));
    w.push(Entry::hard("root/t/hl", "root/other/dir/f"));
    w.push(Entry::fifo("root/t/v/fifo"));
    w
}

pub fn conc_scenarios() -> Vec<(WorldSpec, Vec<Vec<OpSpec>>, bool)> {
    let rm = |p: &str| OpSpec::new(Op::RemoveAll { path: p.into() });
    vec![
        (deep_tree(), vec![vec![rm("t")], vec![rm("t")]], true),
        (deep_tree(), vec![vec![rm("t/u")], vec![rm("t/u").c()]], true),
        // a path and its ancestor: only termination and the frame condition
        (deep_tree(), vec![vec![rm("t")], vec![rm("t/u")]], false),
    ]
}

/// strip the link count: removing one name of a hard-linked file changes the
/// count seen at the other name, which is the disappearance of that entry,
/// not a modification of something else
fn norm(lines: Vec<String>) -> Vec<String> {
    lines
        .into_iter()
        .map(|l| {
            let mut out = Vec::new();
            for tok in l.split(' ') {
                if !tok.starts_with("nlink=") {
                    out.push(tok);
                }
            }
            out.join(" ")
        })
        .collect()
}

fn in_subtree(line: &str, p: &str) -> bool {
    let name = line.split(' ').nth(1).unwrap_or("");
    name == p || name.starts_with(&format!("{p}/"))
}

#[derive(Clone, Debug)]
pub enum Expect {
    /// the entry at this world-relative path (and its subtree) goes away
    Gone(String),
    /// nothing to remove (path absent): success without change
    Absent,
    /// must be refused, nothing changes
    Refused(String),
    /// parent does not resolve etc.: an error, nothing changes
    Error(String),
}

pub fn expectation(rootfd: i32, path: &str, nosym: bool) -> Expect {
    if path.contains('\0') {
        // only expressible through the Rust facade; no system call can take it
        return Expect::Refused("embedded NUL byte".into());
    }
    let trimmed = path.trim_end_matches('/');
    if path.ends_with('/') && !trimmed.is_empty() {
        return Expect::Refused("trailing slash".into());
    }
    let (parent, name) = match path.rfind('/') {
        Some(i) => (&path[..i], &path[i + 1..]),
        None => (".", path),
    };
    let parent = if parent.is_empty() { "/" } else { parent };
    if name.is_empty() {
        return Expect::Refused("empty final component".into());
    }
    if name == "." || name == ".." {
        return Expect::Refused(format!("final component {name:?}"));
    }
    let pfd = match sys::openat2(rootfd, parent.as_bytes(), libc::O_PATH as u64, 0, sys::RESOLVE_IN_ROOT | sys::RESOLVE_NO_MAGICLINKS | if nosym { sys::RESOLVE_NO_SYMLINKS } else { 0 }) {
        Ok(fd) => fd,
        Err(e) => return Expect::Error(format!("parent {parent:?}: {}", sys::errname(e))),
    };
    let ppath = String::from_utf8_lossy(&sys::fd_path(pfd)).into_owned();
    let r = sys::fstatat(pfd, name.as_bytes(), libc::AT_SYMLINK_NOFOLLOW);
    let pst = sys::fstat(pfd);
    sys::close(pfd);
    match (r, pst) {
        (Err(libc::ENOENT), Ok(st)) if st.st_mode & libc::S_IFMT == libc::S_IFDIR => Expect::Absent,
        (Err(e), _) => Expect::Error(format!("final component: {}", sys::errname(e))),
        (Ok(_), _) => match ppath.strip_prefix("/mnt/w/") {
            Some(p) => Expect::Gone(format!("{p}/{name}")),
            None => Expect::Error(format!("parent path {ppath:?} not in world")),
        },
    }
}

pub struct H {
    pub kernel_backend: bool,
    pub pre: Vec<String>,
    pub expect: Option<Expect>,
    pub found: Vec<(usize, String, String)>,
    pub removed_something: Vec<usize>,
}

impl Hooks for H {
    fn begin_op(&mut self, ctx: &mut RunCtx, _t: usize, _k: usize, spec: &OpSpec) {
        if let Op::RemoveAll { path } = &spec.op {
            self.pre = norm(ctx.world.full_snapshot(""));
            self.expect = Some(expectation(crate::ops::slot(spec.root), path, spec.no_symlinks));
        }
    }
    fn end_op(&mut self, ctx: &mut RunCtx, rec: &mut OpRecord) {
        let path = match &rec.spec.op {
            Op::RemoveAll { path } => path.clone(),
            _ => return,
        };
        let post = norm(ctx.world.full_snapshot(""));
        let removed: Vec<&String> = self.pre.iter().filter(|l| !post.contains(l)).collect();
        let added: Vec<&String> = post.iter().filter(|l| !self.pre.contains(l)).collect();
        let exp = self.expect.clone().unwrap_or(Expect::Error("?".into()));
        let idx = rec.idx;
        let links = links_followed(ctx.out, rec);
        let kb = self.kernel_backend;
        let why_all = format!("{exp:?}");
        let mut eloop_skipped = 0u64;
        let mut fail = |c: &str, d: String| {
            // the kernel-derived expectation is unreliable in the ELOOP band
            let probe = format!("{d} {why_all}");
            match eloop_triage(c, &probe, kb, links) {
                Some(c2) => self.found.push((idx, c2, d)),
                None => eloop_skipped += 1,
            }
        };
        if !added.is_empty() {
            fail("something-added", format!("remove_all({path:?}) added {:?}", added.iter().take(3).collect::<Vec<_>>()));
        }
        if !removed.is_empty() {
            self.removed_something.push(idx);
        }
        let ok = matches!(rec.outcome, Outcome::Unit);
        if let Outcome::Panic(m) = &rec.outcome {
            fail("panic", m.clone());
        }
        match &exp {
            Expect::Gone(p) => {
                let outside: Vec<&&String> = removed.iter().filter(|l| !in_subtree(l, p)).collect();
                if !outside.is_empty() {
                    fail("removed-outside-the-subtree", format!("remove_all({path:?}) should remove only {p:?} but also removed/changed {:?}", outside.iter().take(4).collect::<Vec<_>>()));
                }
                if ok {
                    let left: Vec<&String> = post.iter().filter(|l| in_subtree(l, p)).collect();
                    if !left.is_empty() {
                        fail("entry-still-exists-after-success", format!("remove_all({path:?}) succeeded but {:?} still exist", left.iter().take(3).collect::<Vec<_>>()));
                    }
                } else if !is_interference(&rec.outcome) && rec.faults_inside == 0 {
                    fail("fails-where-it-must-succeed", format!("remove_all({path:?}) of existing {p:?} failed: {:?}", rec.outcome));
                }
            }
            Expect::Absent => {
                if !removed.is_empty() {
                    fail("removed-although-path-absent", format!("remove_all({path:?}): path does not exist, yet removed {:?}", removed.iter().take(4).collect::<Vec<_>>()));
                }
            }
            Expect::Refused(why) => {
                if !removed.is_empty() {
                    fail("refused-spelling-applied", format!("remove_all({path:?}) ({why}) must be refused but removed {:?}", removed.iter().take(4).collect::<Vec<_>>()));
                }
                if ok {
                    fail("refused-spelling-reports-success", format!("remove_all({path:?}) ({why}) reported success"));
                }
            }
            Expect::Error(why) => {
                if !removed.is_empty() {
                    fail("removed-although-path-invalid", format!("remove_all({path:?}) ({why}) removed {:?}", removed.iter().take(4).collect::<Vec<_>>()));
                }
            }
        }
    }
}

/// A spelling longer than PATH_MAX whose parent part still fits (the library only hands the parent
/// to the kernel): "./" x N + "shared/a-tmp-0001", cut at PATH_MAX it would name the sibling "shared/a"
pub fn long_spelling_case(uni: &UniCfg, variant: u64) -> Case {
    let mut c = Case::new("C13", "sequential", uni.clone());
    let mut w = WorldSpec::default();
    w.push(Entry::dir("root"));
    w.push(Entry::file("root/shared/a/precious", "PRECIOUS"));
    w.push(Entry::file("root/shared/a-tmp-0001/junk", "JUNK"));
    w.push(Entry::file("root/shared/keep", "KEEP"));
    w.push(Entry::file("outside/secret", "OUTSIDE-SECRET"));
    let name = "a-tmp-0001";
    // parent part of 4094 bytes: ("./" x n) + "shared" (+ one extra "/" to fix the parity)
    let target_parent_len = 4094 - (variant as usize % 3);
    let pad = target_parent_len - "shared".len();
    let mut parent = "./".repeat(pad / 2);
    if pad % 2 == 1 {
        parent.push('/');
    }
    parent.push_str("shared");
    let path = format!("{parent}/{name}");
    let mut o = OpSpec::new(Op::RemoveAll { path });
    if variant % 2 == 0 {
        o = o.c();
    }
    c.world = Some(w);
    c.jobs = vec![vec![o]];
    c
}

/// fault enumeration: fixed subtree, every (system call of the call, errno of its catalogue); whatever
/// the call reports, only entries of the named subtree may have disappeared, and a call that reports
/// success has removed all of it
pub fn fault_world() -> WorldSpec {
    let mut w = WorldSpec::default();
    w.push(Entry::dir("root"));
    w.push(Entry::file("root/t/a/f1", "1"));
    w.push(Entry::file("root/t/a/f2", "2"));
    w.push(Entry::file("root/t/b/c/f3", "3"));
    w.push(Entry::link("root/t/b/out", "/mnt/w/outside"));
    w.push(Entry::link("root/t/b/up", "../../keep"));
    w.push(Entry::file("root/keep/precious", "PRECIOUS"));
    w.push(Entry::link("root/lt", "t"));
    w.push(Entry::file("root/single", "S"));
    w.push(Entry::file("outside/secret", "OUTSIDE-SECRET"));
    w
}

pub fn fault_scenarios() -> Vec<OpSpec> {
    let o = |p: &str| OpSpec::new(Op::RemoveAll { path: p.to_string() });
    vec![o("t"), o("t/b"), o("lt"), o("single"), o("t").c(), o("keep/../t/a"), o("missing"), o("t/b/out"), o("t/")]
}

fn run_fault_enum(u: &mut Universe, b: &Batch, idx: u64, st: &mut Stats) -> bool {
    let op = fault_scenarios()[idx as usize].clone();
    let mk = |script: Vec<Dec>| {
        let mut c = Case::new("C13", "fault-enum", b.uni.clone());
        c.world = Some(fault_world());
        c.jobs = vec![vec![op.clone()]];
        c.plan.script = script;
        c
    };
    let out0 = run_case(u, &mk(vec![]), &mut crate::sup::NoHooks, false);
    if let Some(e) = &out0.harness_error {
        st.harness_errors.push(format!("fault-enum {idx}: {e}"));
        return false;
    }
    let sites: Vec<(usize, i64)> = out0.trace.iter().filter(|e| e.lib && e.op == Some(0) && e.nr != crate::seam::HYPERCALL_NR && e.nr != libc::SYS_futex).map(|e| (e.step, e.nr)).collect();
    for (step, nr) in sites {
        for f in crate::sup::fault_catalogue(nr) {
            let case = mk(vec![Dec { step, fault: Some(f), ..Default::default() }]);
            if !run_seq(u, &case, st, false) || u.poisoned {
                return false;
            }
            st.count("fault_enum.placements", 1);
        }
    }
    true
}

pub fn gen_seq_case(seed: u64, idx: u64, uni: &UniCfg) -> Case {
    if idx % 61 == 7 {
        return long_spelling_case(uni, idx / 61);
    }
    let mut rng = Rng::new(rng::derive(seed, "C13-seq", idx));
    let mut c = Case::new("C13", "sequential", uni.clone());
    let (world, alphabet) = if rng.chance(1, 4) {
        (deep_tree(), 3)
    } else {
        let mut wp = gen::WorldParams::swarm(&mut rng);
        wp.depth = rng.range(2, 4) as usize;
        wp.fanout = rng.range(2, 4) as usize;
        wp.hardlinks = true;
        (gen::gen_world(&mut rng, &wp), wp.alphabet)
    };
    let ents = gen::inroot_paths(&world);
    let n = 3;
    let ops: Vec<OpSpec> = (0..n)
        .map(|_| {
            let mut p = if rng.chance(3, 4) && !ents.is_empty() {
                let e = rng.pick(&ents).0.clone();
                // prefer ancestors (directories with content)
                let cs: Vec<&str> = e.split('/').collect();
                let k = rng.range(1, cs.len() as u64) as usize;
                cs[..k].join("/")
            } else {
                gen::gen_path(&mut rng, &world, alphabet)
            };
            match rng.below(24) {
                0 => p.push_str("/.."),
                1 => p.push_str("/."),
                2 => p.push('/'),
                3 => p = format!("/{p}"),
                4 => p = format!("../{p}"),
                5 => p = (*rng.pick(&["..", ".", "a/..", "../..", "/", "", "/..", "./"])).to_string(),
                6 => p = format!("{p}/../{}", p.rsplit('/').next().unwrap_or("a")),
                _ => {}
            }
            let mut s = OpSpec::new(Op::RemoveAll { path: p });
            if rng.chance(1, 3) {
                s.facade = Facade::C;
            } else if rng.chance(1, 6) {
                s.no_symlinks = true;
            }
            if s.facade == Facade::Rust && rng.chance(1, 30) {
                if let Op::RemoveAll { path } = &mut s.op {
                    let v = *rng.pick(&["..\0x", ".\0x", "/..\0", "\0", "a/..\0y"]);
                    *path = if rng.chance(1, 2) { v.to_string() } else { format!("{path}/{v}") };
                }
            }
            s
        })
        .collect();
    c.world = Some(world);
    c.jobs = vec![ops];
    c
}

pub fn gen_conc_case(seed: u64, idx: u64, uni: &UniCfg) -> Case {
    let mut rng = Rng::new(rng::derive(seed, "C13-conc", idx));
    let mut c = Case::new("C13", "concurrent", uni.clone());
    let nthreads = rng.range(2, 4) as usize;
    let target = *rng.pick(&["t", "t/u", "t/v", "t/u/p", "other", "t/hl", "t/to-sib"]);
    let same = rng.chance(3, 4);
    let mut jobs = Vec::new();
    for i in 0..nthreads {
        let p = if same || i == 0 { target.to_string() } else { (*rng.pick(&["t", "t/u", "t/u/p"])).to_string() };
        let mut s = OpSpec::new(Op::RemoveAll { path: p });
        if rng.chance(1, 3) {
            s.facade = Facade::C;
        }
        jobs.push(vec![s]);
    }
    c.world = Some(deep_tree());
    c.jobs = jobs;
    c.extra = json!({"same": same || nthreads == 1});
    let pct = if rng.chance(1, 2) { rng.range(1, 3) as usize } else { 0 };
    c.plan = Plan { seeded: Some(Seeded { seed: rng.next(), p_switch: *rng.pick(&[50u64, 150, 300, 500]), p_attack: 0, p_fault: 0, max_attacks: 0, pct_depth: pct }), ..Default::default() };
    c
}

struct Snap2 {
    pre: Vec<String>,
    taken: bool,
}
impl Hooks for Snap2 {
    fn begin_op(&mut self, ctx: &mut RunCtx, _t: usize, _k: usize, _s: &OpSpec) {
        if !self.taken {
            self.pre = norm(ctx.world.full_snapshot(""));
            self.taken = true;
        }
    }
}

fn world_now() -> Vec<String> {
    let w = crate::world::World { labels: Default::default(), dev: 0, root_ino: (0, 0), created_seq: 0 };
    norm(w.full_snapshot(""))
}

pub fn conc_oracle(case: &Case, out: &RunOut, pre: &[String], post: &[String], all_must_succeed: bool) -> Vec<(String, String)> {
    let mut v = Vec::new();
    let mut targets: Vec<String> = Vec::new();
    for j in &case.jobs {
        for s in j {
            if let Op::RemoveAll { path } = &s.op {
                targets.push(format!("root/{path}"));
            }
        }
    }
    if out.records.len() < case.jobs.iter().map(|j| j.len()).sum::<usize>() {
        v.push(("call-did-not-return".into(), format!("{} of {} calls returned", out.records.len(), case.jobs.len())));
    }
    for r in &out.records {
        if let Outcome::Panic(m) = &r.outcome {
            v.push(("panic".into(), m.clone()));
        }
        if all_must_succeed && !matches!(r.outcome, Outcome::Unit) && !is_interference(&r.outcome) {
            v.push(("concurrent-call-failed".into(), format!("remove_all on thread {} returned {:?}", r.thread, r.outcome)));
        }
    }
    // frame condition: only the named subtrees may disappear, nothing appears
    for l in pre.iter().filter(|l| !post.contains(l)) {
        if !targets.iter().any(|t| in_subtree(l, t)) {
            v.push(("removed-outside-the-subtree".into(), format!("{l:?} vanished; targets {targets:?}")));
        }
    }
    for l in post.iter().filter(|l| !pre.contains(l)) {
        v.push(("something-added".into(), l.clone()));
    }
    if all_must_succeed {
        for t in &targets {
            if post.iter().any(|l| in_subtree(l, t)) {
                v.push(("entry-still-exists-after-success".into(), format!("{t:?} still exists after all calls returned")));
            }
        }
    }
    v
}

fn run_conc(u: &mut Universe, case: &Case, st: &mut Stats, sample: bool, all_must_succeed: bool) -> bool {
    let mut h = Snap2 { pre: Vec::new(), taken: false };
    let out = run_case(u, case, &mut h, false);
    if let Some(e) = &out.harness_error {
        st.harness_errors.push(format!("concurrent: {e}"));
        return false;
    }
    let post = world_now();
    st.evaluations += 1;
    st.merge_runout(&out);
    if out.switches > 0 {
        let mut hh = case.hash();
        sys::fnv(&mut hh, &out.interleaving_hash.to_le_bytes());
        st.nontrivial.insert(hh);
    }
    st.count("schedule.switches", out.switches as u64);
    let mut seen = std::collections::BTreeSet::new();
    for (clause, detail) in conc_oracle(case, &out, &h.pre, &post, all_must_succeed) {
        if seen.insert(clause.clone()) {
            let v = mk_violation(case, &out, "C13", &clause, "remove_all", detail);
            st.violation(&v);
        }
    }
    for f in &out.findings {
        let v = mk_violation(case, &out, "C13", &f.clause, "remove_all", f.detail.clone());
        st.violation(&v);
    }
    if sample {
        st.sample(json!({"phase": case.phase, "universe": case.uni.tag(), "case": case.with_explicit(&out.decisions).to_json()}));
    }
    true
}

fn run_seq(u: &mut Universe, case: &Case, st: &mut Stats, sample: bool) -> bool {
    let mut h = H { kernel_backend: !case.uni.no_openat2, pre: Vec::new(), expect: None, found: Vec::new(), removed_something: Vec::new() };
    let mut tries = 0;
    let out = loop {
        h.found.clear();
        h.removed_something.clear();
        let out = run_case(u, case, &mut h, false);
        if out.records.iter().any(|r| is_interference(&r.outcome)) && tries < 3 {
            tries += 1;
            st.count("interference_reruns", 1);
            continue;
        }
        break out;
    };
    if let Some(e) = &out.harness_error {
        st.harness_errors.push(format!("sequential: {e}"));
        return false;
    }
    st.merge_runout(&out);
    for r in &out.records {
        st.evaluations += 1;
        st.count(&format!("outcome.{}", r.outcome.class().split(':').take(2).collect::<Vec<_>>().join(":")), 1);
        if h.removed_something.contains(&r.idx) {
            let mut hh = case.hash();
            sys::fnv(&mut hh, &[r.idx as u8]);
            st.nontrivial.insert(hh);
        }
    }
    let mut seen = std::collections::BTreeSet::new();
    for (i, clause, detail) in &h.found {
        if !seen.insert((*i, clause.clone())) {
            continue;
        }
        let mut c1 = case.clone();
        if case.phase != "replay" {
            c1.jobs = vec![case.jobs[0][..=*i].to_vec()];
        }
        let v = mk_violation(&c1, &out, "C13", clause, "remove_all", detail.clone());
        st.violation(&v);
    }
    if sample {
        st.sample(json!({"phase": "sequential", "universe": case.uni.tag(), "ops": case.jobs[0].iter().map(|o| o.to_json()).collect::<Vec<_>>(), "outcomes": out.records.iter().map(|r| r.outcome.class()).collect::<Vec<_>>()}));
    }
    true
}

pub fn run(u: &mut Universe, b: &Batch, st: &mut Stats) {
    if let Err(e) = warm_up(u) {
        st.harness_errors.push(format!("warm-up: {e}"));
        return;
    }
    for idx in b.lo..b.hi {
        coord::progress(idx);
        match b.phase.as_str() {
            "replay" => {
                let case = match Case::from_json(&b.extra["case"]) {
                    Some(c) => c,
                    None => return,
                };
                if case.phase == "attacked" {
                    run_attacked_case(u, &case, st);
                } else if case.jobs.len() > 1 {
                    let same = case.extra["same"].as_bool().unwrap_or(true);
                    run_conc(u, &case, st, false, same);
                } else {
                    run_seq(u, &case, st, false);
                }
            }
            "attacked" => {
                if !run_attacked(u, b, idx, st) {
                    return;
                }
            }
            "sequential" => {
                let case = gen_seq_case(b.seed, idx, &b.uni);
                if !run_seq(u, &case, st, idx == b.lo) {
                    return;
                }
            }
            "fault-enum" => {
                if !run_fault_enum(u, b, idx, st) {
                    return;
                }
            }
            "concurrent" => {
                let case = gen_conc_case(b.seed, idx, &b.uni);
                let same = case.extra["same"].as_bool().unwrap_or(true);
                if !run_conc(u, &case, st, idx == b.lo, same) {
                    return;
                }
            }
            _ => {
                let (w, jobs, same) = conc_scenarios()[idx as usize].clone();
                let shard = b.extra["shard"].as_u64().unwrap_or(0) as usize;
                let shards = b.extra["shards"].as_u64().unwrap_or(1) as usize;
                let two = b.extra["two"].as_bool().unwrap_or(false);
                let mk = |script: Vec<Dec>| {
                    let mut c = Case::new("C13", "preempt", b.uni.clone());
                    c.world = Some(w.clone());
                    c.jobs = jobs.clone();
                    c.plan.script = script;
                    c.extra = json!({"same": same});
                    c
                };
                let base = mk(vec![]);
                let mut h = Snap2 { pre: Vec::new(), taken: false };
                let out0 = run_case(u, &base, &mut h, false);
                let n0 = out0.trace.iter().filter(|e| e.thread == 0).count() + 2;
                let n1 = out0.trace.iter().filter(|e| e.thread == 1).count() + 2;
                let mut scripts: Vec<Vec<Dec>> = vec![vec![], vec![Dec { step: 0, switch_to: Some(1), ..Default::default() }]];
                for s1 in 1..n0 {
                    scripts.push(vec![Dec { step: s1, switch_to: Some(1), ..Default::default() }]);
                    if two {
                        for j in (1..n1).step_by(3) {
                            scripts.push(vec![Dec { step: s1, switch_to: Some(1), ..Default::default() }, Dec { step: s1 + j, switch_to: Some(0), ..Default::default() }]);
                        }
                    }
                }
                for s1 in 1..n1 {
                    scripts.push(vec![Dec { step: 0, switch_to: Some(1), ..Default::default() }, Dec { step: s1, switch_to: Some(0), ..Default::default() }]);
                }
                st.count("preempt.schedules_total", if shard == 0 { scripts.len() as u64 } else { 0 });
                for (i, sc) in scripts.into_iter().enumerate() {
                    if i % shards != shard {
                        continue;
                    }
                    let case = mk(sc);
                    if !run_conc(u, &case, st, false, same) {
                        return;
                    }
                    st.count("preempt.schedules_run", 1);
                    if u.poisoned {
                        return;
                    }
                }
            }
        }
        if u.poisoned {
            return;
        }
    }
}

pub fn finalise(tier: &str, seed: u64, res: coord::CheckResult) -> i32 {
    let mut extra = Map::new();
    let c = &res.stats.counters;
    extra.insert(
        "enumeration".into(),
        json!({"attacked_windows": c.get("attacked.windows_covered"), "scenarios": conc_scenarios().len(), "schedules_total": c.get("preempt.schedules_total"), "schedules_run": c.get("preempt.schedules_run"),
               "bound": if tier == "thorough" { "<=1 preemption everywhere, plus every third <=2-preemption schedule on K" } else { "<=1 preemption" }}),
    );
    coord::finalise(
        "C13",
        tier,
        seed,
        "exploration",
        "sequential: one evaluation = one remove_all on a generated or canonical tree (links to siblings, parents, outside; hard links; fifos; all path spellings incl. final '.'/'..' and trailing '/'), expectation from raw kernel queries before the call (in-root parent + final name), whole-world snapshot diff afterwards; concurrent: 2-4 caller threads remove the same path (all must succeed) or a path and its ancestor (frame condition and termination only) under a seeded scheduler; fault-enum: 9 fixed calls x every (system call of the call, errno of its catalogue) - whatever the call reports only entries of the named subtree may have disappeared, a call that reports success has removed all of it; preempt: every schedule with at most one preemption for three canonical scenarios; attacked: one remove_all (3 spellings, Rust/C) on a tree with a sibling directory inside the root and a directory outside it, while the attacker exchanges one directory of the subtree for a symlink (15 swaps: victim / sub / deep x relative, absolute, in-root and outside targets) at every system-call window of the call - the directories that were never part of the subtree must be byte-for-byte unchanged afterwards; non-trivial = (sequential) the call removed something / (concurrent) a context switch away from the default order happened; distinct = hash of (case, interleaving)",
        res,
        extra,
        vec!["preemption only at trapped system calls".into(), "link counts are not compared (removing one name of a hard-linked file changes the count at the other)".into()],
        false,
        &|b, run| match b.phase.as_str() {
            "sequential" => Some(gen_seq_case(b.seed, run, &b.uni)),
            "concurrent" => Some(gen_conc_case(b.seed, run, &b.uni)),
            _ => None,
        },
    )
    .exit_code
}
