//! Shared generator / classifier for the procfs checks (C06, C07).
use crate::ops::{Base, Op, OpSpec, ProcCtor};
use crate::rng::Rng;
use crate::sys;

#[derive(Clone, Debug, PartialEq)]
pub enum EntKind {
    Dir,
    File,
    /// in-procfs symlink with a relative body (self, thread-self, mounts, net)
    RelLink,
    /// magic-link or absolute symlink (exe, cwd, root, fd/N, ns/*)
    Magic,
    Missing,
}

/// Classify one entry by asking the harness's pristine procfs (no following).
pub fn classify(pristine: i32, full: &str) -> EntKind {
    match sys::fstatat(pristine, full.as_bytes(), libc::AT_SYMLINK_NOFOLLOW) {
        Err(_) => EntKind::Missing,
        Ok(st) => match st.st_mode & libc::S_IFMT {
            libc::S_IFDIR => EntKind::Dir,
            libc::S_IFLNK => {
                // exact: the kernel itself says whether the trailing link is a magic-link
                // (RESOLVE_NO_MAGICLINKS = 0x02 refuses those with ELOOP and nothing else here)
                match sys::openat2(pristine, full.as_bytes(), libc::O_PATH as u64, 0, 0x02) {
                    Ok(fd) => {
                        sys::close(fd);
                        EntKind::RelLink
                    }
                    Err(libc::ELOOP) => EntKind::Magic,
                    Err(_) => {
                        let body = sys::readlinkat(pristine, full.as_bytes()).unwrap_or_default();
                        if body.starts_with(b"/") || body.contains(&b'[') || body.is_empty() || body.ends_with(b"(deleted)") {
                            EntKind::Magic
                        } else {
                            EntKind::RelLink
                        }
                    }
                }
            }
            _ => EntKind::File,
        },
    }
}

pub fn base_prefix(base: Base, tid: i32) -> String {
    match base {
        Base::Root => String::new(),
        Base::SelfP => "self/".into(),
        _ => format!("self/task/{tid}/"),
    }
}

/// Static menu (identical in every universe, so K and E can be compared).
/// {TID} and {RFD} are substituted per universe.
pub fn menu(base: Base) -> Vec<&'static str> {
    match base {
        Base::Root => vec![
            "self", "thread-self", "mounts", "net", "filesystems", "meminfo", "sys", "sys/kernel", "sys/kernel/ostype", "sys/fs/protected_symlinks", "tty", "uptime", "version", "cpuinfo", "stat",
            "self/status", "self/exe", "self/fd", "self/fd/0", "self/cwd", "self/root", "self/ns/mnt", "thread-self/status", "thread-self/exe", "mounts/x", "net/dev", "self/net/dev", "missing",
            "self/missing", "self/root/etc/passwd", "self/cwd/x", "self/fd/0/x", "self/exe/..", "sys/../self", "self/../self/status", "..", "../..", "self/root/..", "self/ns", "driver",
        ],
        _ => vec![
            "status", "stat", "exe", "cwd", "root", "fd", "fd/0", "fd/1", "fd/{RFD}", "fd/{RFD}/a", "ns", "ns/mnt", "ns/pid", "ns/user", "task", "task/{TID}", "task/{TID}/status", "task/{TID}/fd/0",
            "task/{TID}/exe", "maps", "environ", "attr", "attr/current", "net", "net/dev", "mounts", "mountinfo", "comm", "cmdline", "limits", "fdinfo", "fdinfo/0", "map_files", "missing", "fd/missing",
            "root/etc/passwd", "root/..", "cwd/..", "exe/..", "fd/..", "ns/../status", "../self", "..", "../..", "task/../status", "fd/0/..", "oom_score", "cgroup", "auxv", "mem", "pagemap",
        ],
    }
}

pub fn decorate(rng: &mut Rng, p: &str) -> String {
    let mut s = p.to_string();
    match rng.below(14) {
        0 => s = format!("./{s}"),
        1 => s.push('/'),
        2 => s.push_str("/."),
        3 => s.push_str("/.."),
        4 => s = s.replace('/', "//"),
        5 => s = format!("{s}/../{}", s.rsplit('/').next().unwrap_or("x")),
        6 => s = format!("/{s}"),
        _ => {}
    }
    s
}

pub fn gen_flags(rng: &mut Rng) -> i32 {
    let base = *rng.pick(&[libc::O_PATH, libc::O_RDONLY, libc::O_RDONLY, libc::O_RDONLY | libc::O_DIRECTORY, libc::O_PATH | libc::O_DIRECTORY, libc::O_WRONLY, libc::O_RDWR]);
    let mut f = base;
    if base & libc::O_PATH != 0 {
        // openat2 accepts only O_DIRECTORY, O_NOFOLLOW and O_CLOEXEC next to O_PATH;
        // a small share of the generated sets deliberately violates that
        for (bit, pm) in [(libc::O_NOFOLLOW, 200u64), (libc::O_CLOEXEC, 300), (libc::O_DIRECTORY, 50), (libc::O_NONBLOCK, 20), (libc::O_NOCTTY, 10)] {
            if rng.chance(pm, 1000) {
                f |= bit;
            }
        }
        return f;
    }
    f |= libc::O_NONBLOCK;
    for (bit, pm) in [(libc::O_NOFOLLOW, 200u64), (libc::O_CLOEXEC, 300), (libc::O_CREAT, 50), (libc::O_EXCL, 30), (libc::O_TMPFILE, 30), (0o20000000, 25), (libc::O_NOCTTY, 100), (libc::O_DIRECTORY, 50)] {
        if rng.chance(pm, 1000) {
            f |= bit;
        }
    }
    f
}

/// would openat2 reject this flag set outright (EINVAL)?
pub fn openat2_rejects(flags: i32) -> bool {
    flags & libc::O_PATH != 0 && flags & !(libc::O_PATH | libc::O_DIRECTORY | libc::O_NOFOLLOW | libc::O_CLOEXEC) != 0
}

pub fn ctor_ops(rng: &mut Rng) -> (Option<usize>, Vec<OpSpec>, &'static str) {
    match rng.below(6) {
        0 => (None, vec![], "global"),
        1 | 2 => (Some(0), vec![OpSpec::new(Op::ProcNew { ctor: ProcCtor::New, store: 0 })], "new"),
        3 => (Some(0), vec![OpSpec::new(Op::ProcNew { ctor: ProcCtor::FromFsopen, store: 0 })], "fsopen-unmasked"),
        4 => (Some(0), vec![OpSpec::new(Op::ProcNew { ctor: ProcCtor::FromOpenTreeRec, store: 0 })], "open_tree-recursive"),
        _ => (Some(0), vec![OpSpec::new(Op::ProcNew { ctor: ProcCtor::FromPlainOpen, store: 0 })], "plain-open"),
    }
}

/// components of `sub` (relative to base) that are used as *directories*,
/// i.e. every component except the last non-trivial one
pub fn walk_kinds(pristine: i32, prefix: &str, sub: &str) -> (Vec<(String, EntKind)>, Option<(String, EntKind)>, bool) {
    // lexical walk (no '..' handling: paths with '..' are judged separately)
    let comps: Vec<&str> = sub.split('/').filter(|c| !c.is_empty() && *c != ".").collect();
    let has_dotdot = comps.iter().any(|c| *c == "..");
    let mut acc = prefix.trim_end_matches('/').to_string();
    let mut inner = Vec::new();
    let mut last = None;
    for (i, c) in comps.iter().enumerate() {
        if *c == ".." {
            break;
        }
        let full = if acc.is_empty() { c.to_string() } else { format!("{acc}/{c}") };
        let k = classify(pristine, &full);
        if i + 1 == comps.len() {
            last = Some((full.clone(), k));
        } else {
            inner.push((full.clone(), k.clone()));
            // follow relative in-procfs links lexically for the next component
            if k == EntKind::RelLink {
                let body = String::from_utf8_lossy(&sys::readlinkat(pristine, full.as_bytes()).unwrap_or_default()).into_owned();
                let parent = match full.rfind('/') {
                    Some(j) => full[..j].to_string(),
                    None => String::new(),
                };
                acc = if parent.is_empty() { body } else { format!("{parent}/{body}") };
                continue;
            }
        }
        acc = full;
    }
    (inner, last, has_dotdot)
}
