//! Determinism self-test: the same seeds are run twice, in different universe
//! processes and with different numbers of universes in parallel; the
//! normalised event-log hashes and outcomes must be identical.
use super::attack::Attacker;
use super::*;
use crate::case::Case;
use crate::coord::{self, Batch, Stats};
use serde_json::Value;

pub const KINDS: [&str; 10] = ["C01", "C02", "C03a", "C03q", "C12", "C13", "C16", "C14f", "C11m", "C16f"];

pub fn plan(n: u64) -> Vec<Batch> {
    let mut v = Vec::new();
    for uni in [UniCfg::k().workers(4), UniCfg::e().workers(4)] {
        for (ki, _) in KINDS.iter().enumerate() {
            let lo = ki as u64 * 100_000;
            v.push(Batch { check: "SELF".into(), phase: KINDS[ki].into(), uni: uni.clone(), seed: coord::DEFAULT_SEED, lo, hi: lo + n, fresh: false, tier: "quick".into(), extra: Value::Null });
        }
    }
    v
}

fn case_for(kind: &str, seed: u64, idx: u64, uni: &UniCfg) -> Case {
    match kind {
        "C01" => super::c01::gen_case(seed, idx, uni),
        "C02" => super::c02::gen_swarm_case(seed, idx, uni),
        "C03a" => super::c03::gen_case(seed, idx, uni, true),
        "C03q" => super::c03::gen_case(seed, idx, uni, false),
        "C12" => super::c12::gen_conc_case(seed, idx, uni),
        "C13" => super::c13::gen_conc_case(seed, idx, uni),
        // seeded faults (C14 faulted twins), the mixed workload (faults, attackers, procfs), first-use C16
        "C14f" => super::c14::gen_faulted_case(seed, idx, uni),
        "C11m" => super::mixed::mixed_case(seed, idx, uni, "C11"),
        "C16f" => super::c16::gen_case(seed, idx, uni, false),
        _ => super::c16::gen_case(seed, idx, uni, false),
    }
}

pub fn run(u: &mut Universe, b: &Batch, st: &mut Stats) {
    if let Err(e) = warm_up(u) {
        st.harness_errors.push(format!("warm-up: {e}"));
        return;
    }
    for idx in b.lo..b.hi {
        coord::progress(idx);
        let case = case_for(&b.phase, b.seed, idx - b.lo, &b.uni);
        let w = case.world.clone().unwrap_or_default();
        let mut atk = Attacker::new(&w);
        if case.extra["race_world"].as_bool() == Some(true) {
            atk.catalogue = Some(super::attack::race_mutations());
        }
        let out = run_case(u, &case, &mut atk, false);
        if let Some(e) = &out.harness_error {
            st.harness_errors.push(format!("selftest {idx}: {e}"));
            return;
        }
        st.evaluations += 1;
        st.steps += out.steps as u64;
        let outcomes: Vec<String> = out.records.iter().map(|r| format!("T{}#{}:{}", r.thread, r.idx, r.outcome.class())).collect();
        let mut dbg = format!(" attacks_applied={:?} attacks_failed={} faults={}", out.attacks_applied, out.attacks_failed, out.records.iter().map(|r| r.faults_inside).sum::<usize>());
        if std::env::var_os("SELFTEST_DEBUG").is_some() {
            dbg.push_str(&format!(" decisions={}", out.decisions.iter().map(|d| d.to_json().to_string()).collect::<Vec<_>>().join(";")));
        }
        st.records.push((idx + if b.uni.no_openat2 { 50_000 } else { 0 }, format!("{:016x} {:016x} steps={} {}{dbg}", out.trace_hash, out.interleaving_hash, out.steps, outcomes.join(","))));
        if u.poisoned {
            return;
        }
    }
}

pub fn check(n: u64) -> i32 {
    let a = coord::run_batches(plan(n), 16);
    let b = coord::run_batches(plan(n), 3);
    let c = coord::run_batches(plan(n), 1);
    let ma: std::collections::BTreeMap<u64, String> = a.stats.records.iter().cloned().collect();
    let mut bad = 0;
    let mut interference = 0;
    let mut kernel_eloop = 0;
    let mut compared = 0;
    for (name, other) in [("3 universes in parallel", &b), ("1 universe at a time", &c)] {
        for (idx, rec) in &other.stats.records {
            if let Some(ra) = ma.get(idx) {
                compared += 1;
                if ra != rec {
                    // the kernel's own answer for 21..40-link chains is not a function of the tree
                    // (DESIGN 9.2): in the K universe an outcome that flips between ELOOP and
                    // something else is the kernel disagreeing with itself, not the simulator
                    let eloop_flip = *idx % 100_000 < 50_000 && {
                        let oa: Vec<&str> = ra.split(' ').nth(3).unwrap_or("").split(',').collect();
                        let ob: Vec<&str> = rec.split(' ').nth(3).unwrap_or("").split(',').collect();
                        oa.len() == ob.len() && oa.iter().zip(ob.iter()).all(|(x, y)| x == y || x.ends_with("ELOOP") != y.ends_with("ELOOP")) && oa != ob
                    };
                    if eloop_flip {
                        kernel_eloop += 1;
                        continue;
                    }
                    if ra.contains("EAGAIN") || rec.contains("EAGAIN") || ra.contains("SafetyViolation") != rec.contains("SafetyViolation") {
                        interference += 1;
                        continue;
                    }
                    bad += 1;
                    if bad <= 10 {
                        println!("NONDETERMINISM run {idx} (16 parallel vs {name}):\n   {ra}\n   {rec}");
                    }
                }
            }
        }
    }
    for e in a.stats.harness_errors.iter().chain(b.stats.harness_errors.iter()).chain(c.stats.harness_errors.iter()) {
        println!("HARNESS-ERROR: {e}");
    }
    println!(
        "selftest: {} runs x 3 executions (16 / 3 / 1 universes in parallel, different processes), {compared} comparisons, {bad} differing event logs, {interference} differing only through openat2 EAGAIN interference, {kernel_eloop} differing only in an outcome that flips to/from ELOOP in the openat2 universe (the kernel's own 21-40 link answers), {} steps",
        ma.len(),
        a.stats.steps
    );
    if bad > 0 {
        2
    } else {
        0
    }
}
