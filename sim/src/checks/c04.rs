//! C04 - kernel and emulated resolver backends are observationally
//! equivalent. The same seed slice runs in a K and an E universe; the
//! coordinator compares the per-operation records.
use super::*;
use crate::case::Case;
use crate::coord::{self, Batch, Stats};
use crate::gen;
use crate::ops::{Op, OpSpec, Outcome};
use crate::rng::{self, Rng};
use crate::sup::{Hooks, OpRecord, RunCtx};
use serde_json::{json, Map, Value};

pub const PER_BATCH: u64 = 300;
pub const OPS: usize = 5;
/// run indices from here on: the K universe gets 1-3 injected EAGAINs at one of its openat2 calls
pub const EAGAIN_BASE: u64 = 1_000_000_000;

pub fn plan(tier: &str, seed: u64) -> Vec<Batch> {
    let n = match tier {
        "thorough" => 600,
        "dev" => 1,
        _ => 60,
    };
    let mut v = Vec::new();
    for i in 0..n {
        for uni in [UniCfg::k(), UniCfg::e()] {
            v.push(Batch { check: "C04".into(), phase: "twin".into(), uni, seed, lo: i * PER_BATCH, hi: (i + 1) * PER_BATCH, fresh: false, tier: tier.into(), extra: Value::Null });
        }
    }
    // the same comparison while the kernel backend has to absorb 1-3 EAGAINs from openat2 (what any
    // rename or mount elsewhere on the machine causes for lookups through ".."): still equal
    for i in 0..(n / 3).max(1) {
        for uni in [UniCfg::k(), UniCfg::e()] {
            v.push(Batch { check: "C04".into(), phase: "twin-eagain".into(), uni, seed, lo: EAGAIN_BASE + i * PER_BATCH, hi: EAGAIN_BASE + (i + 1) * PER_BATCH, fresh: false, tier: tier.into(), extra: Value::Null });
        }
    }
    v
}

/// flag sets for one-shot opens: all of them are accepted by openat2 (the
/// quantifier of the property); checked again at run time
pub fn gen_flags(rng: &mut Rng) -> i32 {
    let acc = *rng.pick(&[libc::O_RDONLY, libc::O_RDONLY, libc::O_WRONLY, libc::O_RDWR]);
    if rng.chance(1, 5) {
        // O_PATH only combines with O_DIRECTORY / O_NOFOLLOW / O_CLOEXEC
        let mut f = libc::O_PATH;
        for b in [libc::O_DIRECTORY, libc::O_NOFOLLOW, libc::O_CLOEXEC] {
            if rng.chance(1, 3) {
                f |= b;
            }
        }
        return f;
    }
    let mut f = acc | libc::O_NONBLOCK;
    for (bit, pm) in [
        (libc::O_NOFOLLOW, 200u64),
        (libc::O_DIRECTORY, 120),
        (libc::O_APPEND, 150),
        (libc::O_NOATIME, 100),
        (libc::O_SYNC, 60),
        (libc::O_DSYNC, 60),
        (libc::O_NOCTTY, 100),
        (libc::O_CLOEXEC, 300),
        (libc::O_TRUNC, 80),
        (libc::O_DIRECT, 40),
        (libc::O_NDELAY, 100),
    ] {
        if rng.chance(pm, 1000) {
            f |= bit;
        }
    }
    f
}

pub fn gen_case(seed: u64, idx: u64, uni: &UniCfg) -> Case {
    if idx >= EAGAIN_BASE {
        let mut c = gen_case(seed, idx - EAGAIN_BASE + 77_000_000, uni);
        c.phase = "twin-eagain".into();
        if !uni.no_openat2 {
            let mut r = Rng::new(rng::derive(seed, "C04-eagain", idx));
            c.plan.eagain = Some((r.below(8) as usize, *r.pick(&[1usize, 1, 2, 3])));
        }
        return c;
    }
    let mut rng = Rng::new(rng::derive(seed, "C04", idx));
    let mut wp = gen::WorldParams::swarm(&mut rng);
    wp.decoys = rng.chance(1, 3);
    let mut world = gen::gen_world(&mut rng, &wp);
    // the property is quantified over paths with at most 40 link traversals:
    // keep generated chains short (the 41..127 band is C01's known finding)
    world.entries.retain(|e| {
        let n = e.path.rsplit('/').next().unwrap_or("");
        !(n.starts_with("ch") && n[2..].parse::<u32>().map(|k| k >= 8).unwrap_or(false))
    });
    for e in world.entries.iter_mut() {
        if let crate::world::Kind::Symlink(t) = &mut e.kind {
            if t == "ch8" {
                *t = "/".into();
            }
        }
    }
    let mut c = Case::new("C04", "twin", uni.clone());
    let ops: Vec<OpSpec> = (0..OPS)
        .map(|_| match rng.below(10) {
            0..=2 => {
                let mut o = super::c01::gen_lookup_op(&mut rng, &world, wp.alphabet);
                if let Op::OpenSubpath { flags, .. } = &mut o.op {
                    *flags = gen_flags(&mut rng);
                }
                o
            }
            3 => OpSpec::new(Op::OpenSubpath { path: gen::gen_path(&mut rng, &world, wp.alphabet), flags: gen_flags(&mut rng) }),
            4..=6 => super::c14::gen_op(&mut rng, &world, wp.alphabet),
            7 => OpSpec::new(Op::MkdirAll { path: gen::gen_new_path(&mut rng, &world, wp.alphabet), mode: *rng.pick(&[0o755u32, 0o700, 0o1777]) }),
            8 => super::c03::gen_mut_op(&mut rng, &world, wp.alphabet),
            _ => {
                let ents = gen::inroot_paths(&world);
                let p = if ents.is_empty() { "a".to_string() } else { rng.pick(&ents).0.clone() };
                OpSpec::new(Op::RemoveAll { path: p })
            }
        })
        .map(|o| {
            // byte strings with an embedded NUL are not paths in the sense of this
            // property (no system call can take them; both backends refuse them,
            // at different points of the walk): C03/C13 generate them, C04 does not
            if o.to_json().to_string().contains("\\u0000") {
                OpSpec::new(Op::Resolve { path: "a".into(), nofollow: false })
            } else {
                o
            }
        })
        .collect();
    let mut ops: Vec<OpSpec> = ops;
    // sometimes the root directory itself is renamed (by somebody else) between two operations:
    // nothing either backend remembers about the root's *path* may matter afterwards
    if rng.chance(1, 12) && ops.len() > 1 {
        let at = rng.range(1, ops.len() as u64 - 1) as usize;
        ops.insert(at, OpSpec::new(Op::Sup { muts: vec![crate::world::Mutation::Rename { src: "root".into(), dst: "root-renamed".into() }] }));
    }
    c.world = Some(world);
    c.jobs = vec![ops];
    c
}

pub struct H {
    pub recs: Vec<String>,
}

fn strip_ids(p: &str) -> String {
    p.split('/').map(|c| if c.len() >= 3 && c.bytes().all(|b| b.is_ascii_digit()) { "N" } else { c }).collect::<Vec<_>>().join("/")
}

impl Hooks for H {
    fn end_op(&mut self, ctx: &mut RunCtx, rec: &mut OpRecord) {
        let mask = libc::O_ACCMODE | libc::O_APPEND | libc::O_NONBLOCK | libc::O_DIRECT | libc::O_SYNC | libc::O_NOATIME | libc::O_DIRECTORY | libc::O_PATH;
        let res = match &rec.outcome {
            Outcome::Fd(_) => {
                let f = rec.facts.as_ref();
                format!(
                    "ok fd path={} type={:o} fl={:#o} cloexec={}",
                    f.map(|f| strip_ids(&f.path)).unwrap_or_default(),
                    f.map(|f| f.ftype).unwrap_or(0),
                    f.map(|f| f.getfl & mask).unwrap_or(0),
                    f.map(|f| f.getfd & 1).unwrap_or(0)
                )
            }
            Outcome::Unit => "ok".to_string(),
            Outcome::Bytes(b) => format!("ok bytes={}", String::from_utf8_lossy(b)),
            Outcome::CBytes { ret, buf, .. } => format!("ok bytes={}:{}", ret, String::from_utf8_lossy(buf)),
            Outcome::Err { kind, errno, .. } => format!("err {} {}", if kind == "C" { "C" } else { kind.as_str() }, sys::errname(*errno)),
            Outcome::Panic(m) => format!("panic {m}"),
            o => o.class(),
        };
        let snap = ctx.world.full_snapshot("");
        let mut h = 0xcbf29ce484222325u64;
        for l in &snap {
            sys::fnv(&mut h, l.as_bytes());
        }
        self.recs.push(format!("{} => {res} | tree={h:x}", rec.spec.name()));
    }
}

pub fn eval_case(u: &mut Universe, case: &Case, idx: u64, st: &mut Stats) -> bool {
    let mut tries = 0;
    let (out, h) = loop {
        let mut h = H { recs: Vec::new() };
        let out = run_case(u, case, &mut h, false);
        if out.records.iter().any(|r| is_interference(&r.outcome)) && tries < 5 {
            tries += 1;
            st.count("interference_reruns", 1);
            continue;
        }
        break (out, h);
    };
    if let Some(e) = &out.harness_error {
        st.harness_errors.push(format!("twin: {e}"));
        return false;
    }
    st.merge_runout(&out);
    st.evaluations += out.records.len() as u64;
    for r in &out.records {
        st.count(&format!("outcome.{}.{}", r.spec.name(), r.outcome.class().split(':').next().unwrap_or("")), 1);
    }
    st.records.push((idx, h.recs.join("\n")));
    true
}

pub fn run(u: &mut Universe, b: &Batch, st: &mut Stats) {
    if let Err(e) = warm_up(u) {
        st.harness_errors.push(format!("warm-up: {e}"));
        return;
    }
    for idx in b.lo..b.hi {
        coord::progress(idx);
        let case = if b.phase == "replay" {
            match Case::from_json(&b.extra["case"]) {
                Some(mut c) => {
                    c.uni = b.uni.clone();
                    c
                }
                None => return,
            }
        } else {
            gen_case(b.seed, idx, &b.uni)
        };
        if !eval_case(u, &case, idx, st) {
            return;
        }
        if u.poisoned {
            return;
        }
    }
}

/// Coordinator: run both universes, compare records pairwise.
pub fn check(tier: &str, seed: u64, jobs: usize) -> i32 {
    let batches = plan(tier, seed);
    let (kb, eb): (Vec<Batch>, Vec<Batch>) = batches.into_iter().partition(|b| !b.uni.no_openat2);
    // two passes so that records can be told apart
    let mut all = kb.clone();
    all.extend(eb.clone());
    // records carry no universe tag: run K and E separately (each still uses all cores)
    let rk = coord::run_batches(kb, jobs);
    let re = coord::run_batches(eb, jobs);
    let (res, pairs, diffs) = compare(seed, rk, re, None);
    finalise(tier, seed, res, pairs, diffs)
}

pub fn compare(seed: u64, rk: coord::CheckResult, re: coord::CheckResult, fixed_case: Option<&Case>) -> (coord::CheckResult, u64, u64) {
    let mut res = coord::CheckResult { stats: Stats::default(), died: Vec::new(), wall_s: rk.wall_s + re.wall_s };
    let km: std::collections::BTreeMap<u64, String> = rk.stats.records.iter().cloned().collect();
    let em: std::collections::BTreeMap<u64, String> = re.stats.records.iter().cloned().collect();
    let mut pairs = 0u64;
    let mut diffs = 0u64;
    for (idx, krec) in &km {
        let erec = match em.get(idx) {
            Some(e) => e,
            None => continue,
        };
        pairs += 1;
        let kl: Vec<&str> = krec.split('\n').collect();
        let el: Vec<&str> = erec.split('\n').collect();
        let mut hh = seed ^ idx.wrapping_mul(0x9E37_79B9_7F4A_7C15);
        sys::fnv(&mut hh, krec.as_bytes());
        if kl.iter().any(|l| l.contains("=> ok")) {
            res.stats.nontrivial.insert(hh);
        }
        if krec == erec {
            continue;
        }
        diffs += 1;
        // One divergence is recorded as a known finding and must not hide others:
        // a *lookup* that ends at the root itself returns, on the emulated
        // backend, a dup of the caller's root descriptor (with whatever flags
        // the caller opened it with, O_DIRECTORY here) and a fresh O_PATH
        // descriptor on the openat2 backend.
        let root_flags_only = |a: &str, b: &str| -> bool {
            let parse = |l: &str| -> Option<(String, i32)> {
                let (pre, rest) = l.split_once(" fl=0o").or_else(|| l.split_once(" fl=0"))?;
                let (fl, post) = rest.split_once(' ').unwrap_or((rest, ""));
                let fl = i32::from_str_radix(fl, 8).ok()?;
                Some((format!("{pre}|{post}"), fl))
            };
            match (parse(a), parse(b)) {
                (Some((ra, fa)), Some((rb, fb))) => ra == rb && fa != fb && (fa ^ fb) == libc::O_DIRECTORY && (a.contains("fd path=/mnt/w/root type=40000") || a.contains("fd path=/mnt/w/root-renamed type=40000")) && (a.starts_with("resolve") || a.starts_with("mkdir_all")),
                _ => false,
            }
        };
        let mut first_other = None;
        let mut first_rootflags = None;
        for (j, (a, b)) in kl.iter().zip(el.iter()).enumerate() {
            if a != b {
                if root_flags_only(a, b) {
                    first_rootflags.get_or_insert(j);
                } else {
                    first_other = Some(j);
                    break;
                }
            }
        }
        if first_other.is_none() && kl.len() != el.len() {
            first_other = Some(kl.len().min(el.len()));
        }
        if let (Some(j), None) = (first_rootflags, first_other) {
            let mut case = match fixed_case {
                Some(c) => c.clone(),
                None => gen_case(seed, *idx, &UniCfg::k()),
            };
            if fixed_case.is_none() && j < case.jobs[0].len() {
                case.jobs[0].truncate(j + 1);
            }
            let opname = case.jobs[0].get(j).map(|o| o.name()).unwrap_or("op").to_string();
            let mut v = case.to_json();
            v["universe"] = json!({"twin": ["K", "E"], "openat2": "both"});
            v["expect"] = json!({"violation": true, "signature": format!("C04/flags-differ:lookup-ending-at-the-root/{opname}"),
                                 "detail": format!("op #{j}: openat2 universe: {}  ||  universe without openat2: {}", kl[j], el[j])});
            res.stats.violations.push(v);
            continue;
        }
        let i = first_other.unwrap_or(0);
        let mut case = match fixed_case {
            Some(c) => c.clone(),
            None => gen_case(seed, *idx, &UniCfg::k()),
        };
        if fixed_case.is_none() && i < case.jobs[0].len() {
            case.jobs[0].truncate(i + 1);
        }
        let opname = case.jobs[0].get(i).map(|o| o.name()).unwrap_or("op").to_string();
        let kline = kl.get(i).copied().unwrap_or("<none>");
        let eline = el.get(i).copied().unwrap_or("<none>");
        let (kres, eres) = (kline.split(" | tree=").next().unwrap_or(""), eline.split(" | tree=").next().unwrap_or(""));
        let empty_path = case.jobs[0].get(i).map(|o| match &o.op {
            Op::Resolve { path, .. } | Op::OpenSubpath { path, .. } | Op::Readlink { path, .. } => path.is_empty(),
            _ => false,
        }).unwrap_or(false);
        // A walk through a loop of links with 4095-byte bodies nests more link levels (each holding
        // descriptors) than the universe's RLIMIT_NOFILE of 256 allows before either link budget is
        // used up: EMFILE on one side is the harness's own limit, not an outcome of the backends
        if kres.contains("EMFILE") != eres.contains("EMFILE") {
            res.stats.count("skipped.descriptor_limit_of_the_universe", 1);
            continue;
        }
        let clause = if kres != eres {
            if empty_path && kres.contains("ENOENT") {
                "empty-path-not-enoent"
            } else if kres.contains("ELOOP") || eres.contains("ELOOP") {
                "outcome-differs-eloop"
            } else if kres.contains("EAGAIN") || eres.contains("EAGAIN") {
                "outcome-differs-eagain"
            } else {
                "outcome-differs"
            }
        } else {
            "tree-differs"
        };
        let mut v = case.to_json();
        v["universe"] = json!({"twin": ["K", "E"], "openat2": "both"});
        v["expect"] = json!({"violation": true, "signature": format!("C04/{clause}/{opname}"),
                             "detail": format!("op #{i}: openat2 universe: {kline}  ||  universe without openat2: {eline}")});
        res.stats.violations.push(v);
    }
    res.stats.evaluations = rk.stats.evaluations + re.stats.evaluations;
    res.stats.steps = rk.stats.steps + re.stats.steps;
    for (k, v) in rk.stats.counters.iter().chain(re.stats.counters.iter()) {
        res.stats.count(k, *v);
    }
    res.stats.harness_errors.extend(rk.stats.harness_errors);
    res.stats.harness_errors.extend(re.stats.harness_errors);
    res.died.extend(rk.died);
    res.died.extend(re.died);
    res.stats.interleavings.insert(0);
    if let Some((idx, r)) = km.iter().next() {
        res.stats.sample(json!({"run": idx, "ops": gen_case(seed, *idx, &UniCfg::k()).jobs[0].iter().map(|o| o.to_json()).collect::<Vec<_>>(), "record_K": r, "record_E": em.get(idx)}));
    }
    (res, pairs, diffs)
}

pub fn finalise(tier: &str, seed: u64, res: coord::CheckResult, pairs: u64, diffs: u64) -> i32 {
    let mut extra = Map::new();
    extra.insert("pairs_compared".into(), json!(pairs));
    extra.insert("pairs_differing".into(), json!(diffs));
    coord::finalise(
        "C04",
        tier,
        seed,
        "exploration",
        "one evaluation = one Root operation executed in one universe; every generated run (world + 5 operations drawn from lookups, one-shot opens with flag sets openat2 accepts, readlink, create*, create_file, mkdir_all, remove_*, rename with flags; both facades) is executed in a K universe (openat2 present) and in an E universe (openat2 answered ENOSYS) and the per-operation records - outcome, error kind and errno, path/type/F_GETFL(masked)/FD_CLOEXEC of a returned descriptor, hash of the whole-world snapshot - are compared pairwise; non-trivial = a run in which at least one operation succeeded; distinct = hash of (run, K record)",
        res,
        extra,
        vec![
            "quiescent: no attacker, no injected faults".into(),
            "generated link chains are at most 8 long (the property is quantified over at most 40 traversals)".into(),
            "O_NOFOLLOW and other lookup-control bits echoed in F_GETFL are masked out".into(),
        ],
        false,
        &|b, run| Some(gen_case(b.seed, run, &b.uni)),
    )
    .exit_code
}
