//! C06 - procfs calls return only genuine procfs objects under any over-mounts.
use super::*;
use crate::case::{mk_violation, Case};
use crate::coord::{self, Batch, Stats};
use crate::ops::{Base, Facade, Op, OpSpec, Outcome, ProcCtor};
use crate::rng::{self, Rng};
use crate::sup::{Dec, Hooks, MountApi, OpRecord, RunCtx, RunOut};
use crate::world::Mutation;
use serde_json::{json, Map, Value};

pub const PER_BATCH: u64 = 120;

/// (mount target, mount on the dentry itself (no follow), is a directory, lookups that touch it)
pub fn targets() -> Vec<(&'static str, bool, bool, Vec<(Base, &'static str)>)> {
    vec![
        ("/proc/uptime", false, false, vec![(Base::Root, "uptime")]),
        ("/proc/cpuinfo", false, false, vec![(Base::Root, "cpuinfo")]),
        ("/proc/tty", false, true, vec![(Base::Root, "tty"), (Base::Root, "tty/drivers")]),
        ("/proc/sys/kernel", false, true, vec![(Base::Root, "sys/kernel/ostype"), (Base::Root, "sys/kernel")]),
        ("/proc/self", true, false, vec![(Base::Root, "self"), (Base::Root, "self/status"), (Base::SelfP, "status")]),
        ("/proc/thread-self", true, false, vec![(Base::ThreadSelf, "stat"), (Base::Root, "thread-self")]),
        ("/proc/self/exe", true, false, vec![(Base::SelfP, "exe"), (Base::Root, "self/exe")]),
        ("/proc/self/cwd", true, true, vec![(Base::SelfP, "cwd")]),
        ("/proc/self/fd/0", true, false, vec![(Base::SelfP, "fd/0")]),
        ("/proc/self/status", false, false, vec![(Base::SelfP, "status"), (Base::Root, "self/status")]),
        ("/proc/self/fd", false, true, vec![(Base::SelfP, "fd/0"), (Base::SelfP, "fd")]),
        ("/proc/self/task", false, true, vec![(Base::ThreadSelf, "status"), (Base::SelfP, "task")]),
        ("/proc/self/ns/mnt", true, false, vec![(Base::SelfP, "ns/mnt")]),
        ("/proc/mounts", true, false, vec![(Base::Root, "mounts")]),
        ("/proc/net", true, false, vec![(Base::Root, "net"), (Base::Root, "net/dev")]),
        ("/proc", false, true, vec![(Base::Root, "uptime"), (Base::SelfP, "status")]),
        // the *targets* of procfs's own ordinary links (mounts -> self/mounts, net -> self/net)
        ("/proc/self/mounts", false, false, vec![(Base::Root, "mounts"), (Base::SelfP, "mounts")]),
        ("/proc/self/net", false, true, vec![(Base::Root, "net"), (Base::Root, "net/dev"), (Base::SelfP, "net/dev")]),
    ]
}

pub const UNTOUCHED: [(Base, &str); 5] = [(Base::Root, "version"), (Base::SelfP, "stat"), (Base::ThreadSelf, "comm"), (Base::SelfP, "root"), (Base::Root, "filesystems")];

pub fn sources(dir: bool, rng: &mut Rng) -> String {
    if dir {
        (*rng.pick(&["", "", "/mnt/w/outside", "/proc/fs", "/proc/self/net", "/proc/self/cwd"])).to_string()
    } else {
        // (the last ones are symlinks mounted as such: a foreign link that leads to another
        // process's directory, and procfs's own links)
        (*rng.pick(&[
            "/mnt/w/outside/secret",
            "/mnt/w/outside/secret",
            "/proc/version",
            "/proc/self/environ",
            "/proc/self/exe",
            "/proc/1/status",
            "nofollow:/mnt/w/outside/to-pid1",
            "nofollow:/mnt/w/outside/to-pid1",
            "nofollow:/mnt/w/outside/to-abs-pid1",
            "nofollow:/proc/thread-self",
            "nofollow:/proc/mounts",
        ]))
        .to_string()
    }
}

pub fn plan(tier: &str, seed: u64) -> Vec<Batch> {
    let (n, race) = match tier {
        "thorough" => (200, 200),
        "dev" => (1, 1),
        _ => (20, 32),
    };
    let mut v = Vec::new();
    let mut unis = vec![UniCfg::k(), UniCfg::e()];
    for ma in [MountApi::NoFsopen, MountApi::Eperm] {
        for e in [false, true] {
            let mut u = if e { UniCfg::e() } else { UniCfg::k() };
            u.mount_api = ma;
            unis.push(u);
        }
    }
    // a kernel between 5.8 and 6.7: statx reports the old mount id only (and no openat2 backend
    // to fall back on for the procfs resolver's own checks)
    let mut old_ids = UniCfg::e();
    old_ids.statx_no_unique = true;
    unis.push(old_ids);
    for (ui, uni) in unis.into_iter().enumerate() {
        let nb = if ui < 2 { n } else { (n / 2).max(1) };
        for i in 0..nb {
            v.push(Batch { check: "C06".into(), phase: "static".into(), uni: uni.clone(), seed, lo: i * PER_BATCH, hi: (i + 1) * PER_BATCH, fresh: false, tier: tier.into(), extra: Value::Null });
        }
        if uni.mount_api == MountApi::Eperm {
            let nm = race_capi_matrix().len() as u64;
            let mut lo = 0;
            while lo < nm {
                v.push(Batch { check: "C06".into(), phase: "race-capi".into(), uni: uni.clone(), seed, lo: lo * RACE_W, hi: (lo + 6).min(nm) * RACE_W, fresh: false, tier: tier.into(), extra: Value::Null });
                lo += 6;
            }
        }
        if ui < 2 {
            // fixed layouts under every single fault placement of the lookup
            for i in 0..fault_layouts(&uni).len() as u64 {
                v.push(Batch { check: "C06".into(), phase: "fault-enum".into(), uni: uni.clone(), seed, lo: i, hi: i + 1, fresh: false, tier: tier.into(), extra: Value::Null });
            }
            // a private (masked) handle that needs a temporary unmasked handle in the middle of the
            // lookup: one fault in the mount-API calls of that step x one racing mount at every window
            for i in 0..fault_race_scenarios().len() as u64 {
                v.push(Batch { check: "C06".into(), phase: "fault-race".into(), uni: uni.clone(), seed, lo: i, hi: i + 1, fresh: false, tier: tier.into(), extra: Value::Null });
            }
            v.push(Batch { check: "C06".into(), phase: "canonical".into(), uni: uni.clone(), seed, lo: 0, hi: canonical_cases(&uni).len() as u64, fresh: false, tier: tier.into(), extra: Value::Null });
            let nm = race_matrix().len() as u64;
            let mut lo = 0;
            while lo < nm {
                v.push(Batch { check: "C06".into(), phase: "race-matrix".into(), uni: uni.clone(), seed, lo: lo * RACE_W, hi: (lo + 4).min(nm) * RACE_W, fresh: false, tier: tier.into(), extra: Value::Null });
                lo += 4;
            }
            // the same matrix with the mount *removed* at every window (quick: every third case)
            let nr = nm + race_capi_matrix().len() as u64;
            let stride = if tier == "thorough" { 1 } else { 3 };
            let mut k = (seed % stride) as u64;
            while k < nr {
                v.push(Batch { check: "C06".into(), phase: "race-remove".into(), uni: uni.clone(), seed, lo: k * RACE_W, hi: (k + 1) * RACE_W, fresh: false, tier: tier.into(), extra: Value::Null });
                k += stride;
            }
            for i in 0..race {
                v.push(Batch { check: "C06".into(), phase: "race".into(), uni: uni.clone(), seed, lo: i * 4 * RACE_W, hi: (i + 1) * 4 * RACE_W, fresh: false, tier: tier.into(), extra: Value::Null });
            }
        }
    }
    v
}

fn lookup_op(rng: &mut Rng, handle: Option<usize>, base: Base, path: &str, facade: Facade, nofollow_only: bool) -> OpSpec {
    let flags = *rng.pick(&[libc::O_PATH, libc::O_RDONLY | libc::O_NONBLOCK, libc::O_PATH | libc::O_NOFOLLOW, libc::O_RDONLY | libc::O_NONBLOCK | libc::O_DIRECTORY]);
    let op = match rng.below(if nofollow_only { 7 } else { 10 }) {
        0..=4 => Op::ProcOpen { handle, base, path: path.into(), flags, follow: false },
        5..=6 => Op::ProcReadlink { handle, base, path: path.into(), bufsz: 512 },
        _ => Op::ProcOpen { handle, base, path: path.into(), flags: flags & !libc::O_NOFOLLOW, follow: true },
    };
    OpSpec::new(op).facade(facade)
}

pub fn gen_case(seed: u64, idx: u64, uni: &UniCfg) -> Case {
    let mut rng = Rng::new(rng::derive(seed, "C06", idx));
    let mut c = Case::new("C06", "static", uni.clone());
    let tg = targets();
    let (ctor, cname): (Option<ProcCtor>, &str) = *rng.pick(&[
        (None, "global"),
        (Some(ProcCtor::New), "new"),
        (Some(ProcCtor::New), "new"),
        (Some(ProcCtor::FromFsopen), "fsopen-unmasked"),
        (Some(ProcCtor::FromOpenTree), "open_tree"),
        (Some(ProcCtor::FromOpenTreeRec), "open_tree-recursive"),
        (Some(ProcCtor::FromPlainOpen), "plain-open"),
    ]);
    let ctor_before = rng.chance(1, 2);
    let handle = ctor.map(|_| 0usize);
    let facade = if handle.is_none() { Facade::C } else { Facade::Rust };
    let nmounts = rng.range(1, 3) as usize;
    let mut mounts = Vec::new();
    let mut lookups: Vec<(Base, String)> = Vec::new();
    for _ in 0..nmounts {
        let (dst, nofollow, dir, ls) = rng.pick(&tg).clone();
        let src = sources(dir, &mut rng);
        mounts.push(Mutation::MountOn { src, dst: dst.into(), nofollow });
        for (b, p) in ls {
            lookups.push((b, p.to_string()));
        }
    }
    for _ in 0..2 {
        let (b, p) = *rng.pick(&UNTOUCHED);
        lookups.push((b, p.to_string()));
    }
    let mut ops = Vec::new();
    let ctor_op = ctor.map(|ct| OpSpec::new(Op::ProcNew { ctor: ct, store: 0 }));
    if ctor_before {
        ops.extend(ctor_op.clone());
    }
    ops.push(OpSpec::new(Op::Sup { muts: mounts.clone() }));
    if !ctor_before {
        ops.extend(ctor_op.clone());
    }
    for (b, p) in &lookups {
        ops.push(lookup_op(&mut rng, handle, *b, p, facade, false));
    }
    c.world = Some(warm_world_with_outside());
    c.jobs = vec![ops];
    c.extra = json!({"ctor": cname, "ctor_before_mounts": ctor_before || ctor.is_none()});
    // a quarter of the layouts is looked up under seeded transient faults as well (statx without a
    // mount id, ENOSYS, EMFILE, ...): a lookup may then fail, a success is still the genuine object
    if rng.chance(1, 4) {
        c.plan.seeded = Some(crate::sup::Seeded { seed: rng.next(), p_switch: 0, p_attack: 0, p_fault: *rng.pick(&[30u64, 80, 150]), max_attacks: 0, pct_depth: 0 });
    }
    c
}

/// layouts for the fault enumeration: (mounts, constructor, lookup)
pub fn fault_layouts(uni: &UniCfg) -> Vec<Case> {
    let mut v = Vec::new();
    let mk = |mounts: Vec<Mutation>, ctor: Option<(ProcCtor, &'static str)>, lookup: Op| {
        let mut c = Case::new("C06", "fault-enum", uni.clone());
        let mut ops = vec![OpSpec::new(Op::Sup { muts: mounts })];
        let facade = if ctor.is_none() { Facade::C } else { Facade::Rust };
        if let Some((ct, _)) = ctor {
            ops.push(OpSpec::new(Op::ProcNew { ctor: ct, store: 0 }));
        }
        ops.push(OpSpec::new(lookup).facade(facade));
        c.world = Some(warm_world_with_outside());
        c.jobs = vec![ops];
        c.extra = json!({"ctor": ctor.map(|c| c.1).unwrap_or("global"), "ctor_before_mounts": ctor.is_none()});
        c
    };
    let bind = |src: &str, dst: &str, nofollow: bool| Mutation::MountOn { src: src.into(), dst: dst.into(), nofollow };
    let open = |h: Option<usize>, base: Base, p: &str| Op::ProcOpen { handle: h, base, path: p.into(), flags: libc::O_RDONLY | libc::O_NONBLOCK, follow: false };
    for (ct, h) in [(Some((ProcCtor::FromPlainOpen, "plain-open")), Some(0)), (Some((ProcCtor::FromOpenTreeRec, "open_tree-recursive")), Some(0)), (Some((ProcCtor::New, "new")), Some(0)), (None, None)] {
        v.push(mk(vec![bind("/proc/1/status", "/proc/self/status", false)], ct, open(h, Base::SelfP, "status")));
        v.push(mk(vec![bind("/proc/1/status", "/proc/self/status", false)], ct, open(h, Base::Root, "self/status")));
        v.push(mk(vec![bind("/mnt/w/outside/secret", "/proc/cpuinfo", false)], ct, open(h, Base::Root, "cpuinfo")));
        v.push(mk(vec![bind("/proc/version", "/proc/cpuinfo", false)], ct, open(h, Base::Root, "cpuinfo")));
        v.push(mk(vec![bind("nofollow:/mnt/w/outside/to-pid1", "/proc/self", true)], ct, open(h, Base::SelfP, "status")));
        v.push(mk(vec![bind("/proc/1/status", "/proc/self/status", false)], ct, Op::ProcReadlink { handle: h, base: Base::SelfP, path: "exe".into(), bufsz: 256 }));
    }
    v
}

/// (global handle?, lookup path, follow, mount source, mount target, on the dentry itself)
pub fn fault_race_scenarios() -> Vec<(bool, &'static str, bool, &'static str, &'static str, bool)> {
    let mut v = Vec::new();
    for global in [false, true] {
        v.push((global, "mounts", true, "/mnt/w/outside/secret", "/proc/mounts", true));
        v.push((global, "mounts", true, "/proc/version", "/proc/mounts", true));
        v.push((global, "cpuinfo", false, "/mnt/w/outside/secret", "/proc/cpuinfo", false));
        v.push((global, "net", true, "/mnt/w/outside", "/proc/net", true));
        v.push((global, "sys/kernel/ostype", false, "/proc/version", "/proc/sys/kernel/ostype", false));
    }
    v
}

fn run_fault_race(u: &mut Universe, b: &Batch, idx: u64, st: &mut Stats) -> bool {
    let (global, path, follow, src, dst, nofollow) = fault_race_scenarios()[idx as usize];
    let mk = |script: Vec<Dec>| {
        let mut c = Case::new("C06", "fault-race", b.uni.clone());
        let mut ops = Vec::new();
        let handle = if global {
            None
        } else {
            ops.push(OpSpec::new(Op::ProcNew { ctor: ProcCtor::New, store: 0 }));
            Some(0)
        };
        let mut o = OpSpec::new(Op::ProcOpen { handle, base: Base::Root, path: path.into(), flags: libc::O_RDONLY | libc::O_NONBLOCK, follow });
        if global {
            o = o.c();
        }
        ops.push(o);
        c.world = Some(warm_world_with_outside());
        c.jobs = vec![ops];
        c.plan.script = script;
        c.extra = json!({"ctor": if global { "global" } else { "new" }, "ctor_before_mounts": true});
        c
    };
    let base_case = mk(vec![]);
    let target = base_case.jobs[0].len() - 1;
    let mut h0 = H::new();
    let out0 = run_case(u, &base_case, &mut h0, false);
    if out0.harness_error.is_some() || u.poisoned {
        return !u.poisoned;
    }
    let lib: Vec<(usize, i64)> = out0.trace.iter().filter(|e| e.lib && e.op == Some(target) && e.nr != crate::seam::HYPERCALL_NR && e.nr != libc::SYS_futex).map(|e| (e.step, e.nr)).collect();
    let api: Vec<(usize, i64)> = lib.iter().copied().filter(|(_, nr)| matches!(*nr, libc::SYS_fsopen | libc::SYS_fsconfig | libc::SYS_fsmount | libc::SYS_open_tree)).collect();
    st.count("fault_race.mount_api_sites", api.len() as u64);
    for (fs, _) in &api {
        for e in [libc::EPERM, libc::ENOMEM] {
            for (w, _) in lib.iter().filter(|(w, _)| w > fs) {
                let case = mk(vec![
                    Dec { step: *fs, fault: Some(crate::sup::Fault::Errno(e)), ..Default::default() },
                    Dec { step: *w, attack: vec![Mutation::MountOn { src: src.into(), dst: dst.into(), nofollow }], ..Default::default() },
                ]);
                if !run_pair(u, &case, st, false) {
                    return false;
                }
                st.count("fault_race.pairs", 1);
                if u.poisoned {
                    return false;
                }
            }
        }
    }
    true
}

fn run_fault_enum(u: &mut Universe, b: &Batch, idx: u64, st: &mut Stats) -> bool {
    let base_case = fault_layouts(&b.uni)[idx as usize].clone();
    // the lookup's system calls (with the mounts in place, no fault yet)
    let mut h0 = H::new();
    let out0 = run_case(u, &base_case, &mut h0, false);
    cleanup(&h0.dsts);
    if out0.harness_error.is_some() {
        st.harness_errors.push(format!("fault-enum {idx}: {:?}", out0.harness_error));
        return false;
    }
    if mount_ids() != h0.base_mounts {
        u.poisoned = true;
        return false;
    }
    let target = base_case.jobs[0].len() - 1;
    let sites: Vec<(usize, i64)> = out0.trace.iter().filter(|e| e.lib && e.op == Some(target) && e.nr != crate::seam::HYPERCALL_NR && e.nr != libc::SYS_futex).map(|e| (e.step, e.nr)).collect();
    for (step, nr) in sites {
        for f in crate::sup::fault_catalogue(nr) {
            let mut case = base_case.clone();
            case.plan.script = vec![Dec { step, fault: Some(f), ..Default::default() }];
            if !run_pair(u, &case, st, false) {
                return false;
            }
            st.count("fault_enum.placements", 1);
            if u.poisoned {
                return false;
            }
        }
    }
    true
}

/// fixed layouts that every run covers (the generated ones vary with the seed)
pub fn canonical_cases(uni: &UniCfg) -> Vec<Case> {
    let mut v = Vec::new();
    for (src, dst) in [("nofollow:/mnt/w/outside/to-pid1", "/proc/self"), ("nofollow:/mnt/w/outside/to-abs-pid1", "/proc/self"), ("nofollow:/mnt/w/outside/to-pid1", "/proc/thread-self"), ("nofollow:/proc/thread-self", "/proc/self")] {
        for (ctor, cname) in [(ProcCtor::FromPlainOpen, "plain-open"), (ProcCtor::FromOpenTreeRec, "open_tree-recursive"), (ProcCtor::New, "new")] {
            let mut c = Case::new("C06", "canonical", uni.clone());
            let mut ops = vec![OpSpec::new(Op::Sup { muts: vec![Mutation::MountOn { src: src.into(), dst: dst.into(), nofollow: true }] }), OpSpec::new(Op::ProcNew { ctor, store: 0 })];
            for (base, path, follow) in [
                (Base::Root, "net", true),
                (Base::Root, "mounts", true),
                (Base::Root, "net/dev", false),
                (Base::Root, "self", true),
                (Base::Root, "self/status", false),
                (Base::SelfP, "status", false),
                (Base::SelfP, "exe", true),
                (Base::ThreadSelf, "stat", false),
                (Base::Root, "thread-self", true),
            ] {
                ops.push(OpSpec::new(Op::ProcOpen { handle: Some(0), base, path: path.into(), flags: libc::O_RDONLY | libc::O_NONBLOCK, follow }));
                if !follow {
                    ops.push(OpSpec::new(Op::ProcReadlink { handle: Some(0), base, path: path.into(), bufsz: 512 }));
                }
            }
            c.world = Some(warm_world_with_outside());
            c.jobs = vec![ops];
            c.extra = json!({"ctor": cname, "ctor_before_mounts": false});
            v.push(c);
        }
    }
    v
}

pub fn warm_world_with_outside() -> crate::world::WorldSpec {
    let mut w = warm_world();
    w.push(crate::world::Entry::file("outside/secret", "OUTSIDE-SECRET"));
    w.push(crate::world::Entry::file("outside/dirfile", "OUTSIDE-DIRFILE"));
    w.push(crate::world::Entry::link("outside/to-pid1", "1"));
    w.push(crate::world::Entry::link("outside/to-abs-pid1", "/proc/1"));
    w
}

pub fn baseline_of(case: &Case) -> Case {
    let mut b = case.clone();
    b.jobs[0].retain(|o| !matches!(o.op, Op::Sup { .. }));
    b.plan.script.clear();
    b.plan.seeded = None;
    b
}

/// Does this handle see mounts placed on the host's /proc?
fn private_handle(case: &Case) -> bool {
    let before = case.extra["ctor_before_mounts"].as_bool().unwrap_or(true);
    let fsopen_ok = case.uni.mount_api == MountApi::Ok;
    let open_tree_ok = matches!(case.uni.mount_api, MountApi::Ok | MountApi::NoFsopen);
    match case.extra["ctor"].as_str().unwrap_or("") {
        // fsopen gives a fresh superblock: never affected. Without fsopen the
        // library falls back to a recursive clone (a detached copy: affected
        // only by mounts that existed when it was taken), then to the host's /proc
        "new" | "global" => fsopen_ok || (open_tree_ok && before),
        "fsopen-unmasked" => true,
        "open_tree" => true,
        "open_tree-recursive" => before,
        _ => false,
    }
}

fn strip_ids(p: &str) -> String {
    let p = p.strip_prefix("/proc/").map(|r| format!("/{r}")).unwrap_or_else(|| p.to_string());
    let mut out = String::new();
    let mut digits = String::new();
    for ch in p.chars() {
        if ch.is_ascii_digit() {
            digits.push(ch);
        } else {
            if digits.len() >= 3 {
                out.push('N');
            } else {
                out.push_str(&digits);
            }
            digits.clear();
            out.push(ch);
        }
    }
    if digits.len() >= 3 {
        out.push('N');
    } else {
        out.push_str(&digits);
    }
    out
}

pub struct H {
    /// mount ids and root inodes of everything the attacker mounted
    pub atk_mounts: Vec<u64>,
    pub atk_inodes: Vec<(u64, u64)>,
    pub base_mounts: Vec<u64>,
    /// remove-race: identity of the object the attacker mounted (taken through the mount, which pins it);
    /// mount ids are not used there - the id of a removed mount may be given to a mount the library makes
    pub mounted_ident: Option<crate::world::Ino>,
    pub ctor_failed: bool,
    pub dsts: Vec<(String, bool)>,
    pub recs: Vec<(usize, String)>,
    pub absolute: Vec<(usize, String, String)>,
    /// (op index, kind, path, mount id, description) of every returned descriptor
    pub fd_results: Vec<(usize, String, String, u64, String)>,
    /// a fault hit the constructor: the handle may be a fallback kind (not private)
    pub ctor_faulted: bool,
    /// the case runs under seeded faults: thread-self may degrade to self (documented tolerance)
    pub faulted_case: bool,
}

impl H {
    pub fn new() -> H {
        H { atk_mounts: Vec::new(), atk_inodes: Vec::new(), base_mounts: mount_ids(), ctor_failed: false, dsts: Vec::new(), recs: Vec::new(), absolute: Vec::new(), fd_results: Vec::new(), ctor_faulted: false, faulted_case: false, mounted_ident: None }
    }
    fn note_mounts(&mut self, muts: &[Mutation]) {
        for m in muts {
            if let Mutation::MountOn { dst, nofollow, .. } = m {
                self.dsts.push((dst.clone(), *nofollow));
            }
        }
        // every mount id that did not exist when the run started was placed by the attacker
        for id in mount_ids() {
            if !self.base_mounts.contains(&id) && !self.atk_mounts.contains(&id) {
                self.atk_mounts.push(id);
            }
        }
    }
}

/// mount ids of the universe's mount namespace, read through the pristine procfs
pub fn mount_ids() -> Vec<u64> {
    let pp = sys::PRISTINE_PROC.load(std::sync::atomic::Ordering::Relaxed);
    let mut v = Vec::new();
    if let Ok(fd) = sys::openat(pp, b"self/mountinfo", libc::O_RDONLY, 0) {
        let txt = sys::read_fd_all(fd, 1 << 20);
        sys::close(fd);
        for l in String::from_utf8_lossy(&txt).lines() {
            if let Some(id) = l.split(' ').next().and_then(|x| x.parse::<u64>().ok()) {
                v.push(id);
            }
        }
    }
    v
}

impl Hooks for H {
    fn begin_op(&mut self, _ctx: &mut RunCtx, _t: usize, _k: usize, spec: &OpSpec) {
        if let Op::Sup { muts } = &spec.op {
            self.note_mounts(muts);
            if self.mounted_ident == Some((0, 0)) {
                // remove-race: what sits on the target now is the attacker's object
                self.mounted_ident = None;
                if let Some(Mutation::MountOn { dst, .. }) = muts.first() {
                    if let Ok(s) = sys::lstat(dst.as_bytes()) {
                        self.mounted_ident = Some((s.st_dev, s.st_ino));
                    }
                }
                self.atk_mounts.clear();
            }
        }
    }
    fn end_op(&mut self, _ctx: &mut RunCtx, rec: &mut OpRecord) {
        if let Op::ProcNew { .. } = &rec.spec.op {
            if rec.faults_inside > 0 {
                self.ctor_faulted = true;
            }
            if !rec.outcome.is_ok() {
                self.ctor_failed = true;
                if let Outcome::Panic(m) = &rec.outcome {
                    self.absolute.push((rec.idx, "panic".into(), m.clone()));
                }
            }
            return;
        }
        if self.ctor_failed {
            return; // no handle: a failing constructor is an acceptable error
        }
        if rec.faults_inside > 0 && !rec.outcome.is_ok() && !matches!(rec.outcome, Outcome::Panic(_)) {
            // a lookup that fails under an injected fault is an acceptable error (C10's subject)
            self.recs.push((rec.idx, "FAULTED-AND-FAILED".into()));
            return;
        }
        let (kind, path) = match &rec.spec.op {
            Op::ProcOpen { follow, path, .. } => (if *follow { "follow" } else { "open" }, path.clone()),
            Op::ProcReadlink { path, .. } => ("readlink", path.clone()),
            _ => return,
        };
        let r = match (&rec.outcome, &rec.facts) {
            (Outcome::Fd(_), Some(f)) => {
                self.fd_results.push((rec.idx, kind.to_string(), path.clone(), f.mnt_id, f.path.clone()));
                // absolute clauses: never an object of an attacker mount
                if self.atk_mounts.contains(&f.mnt_id) {
                    self.absolute.push((rec.idx, "returned-over-mounted-object".into(), format!("{kind}({path:?}) returned {} which lives on mount {} placed by the attacker", f.path, f.mnt_id)));
                }
                if self.mounted_ident == Some(f.ino) {
                    self.absolute.push((rec.idx, "returned-over-mounted-object".into(), format!("{kind}({path:?}) returned {} = inode {:?}, the object the attacker had mounted there (removed while the lookup was running)", f.path, f.ino)));
                }
                if kind == "open" && f.fstype != sys::PROC_SUPER_MAGIC {
                    self.absolute.push((rec.idx, "returned-non-procfs-object".into(), format!("{kind}({path:?}) returned {} (f_type {:#x})", f.path, f.fstype)));
                }
                let mut pth = strip_ids(&f.path);
                if self.faulted_case {
                    pth = pth.replace("/N/task/N/", "/N/");
                }
                format!("ok type={:o} path={} procfs={}", f.ftype, pth, f.fstype == sys::PROC_SUPER_MAGIC)
            }
            (Outcome::Bytes(b), _) => format!("ok bytes={}", strip_ids(&String::from_utf8_lossy(b))),
            (Outcome::CBytes { ret, buf, .. }, _) => format!("ok bytes={}", strip_ids(&String::from_utf8_lossy(&buf[..(*ret as usize).min(buf.len())]))),
            (Outcome::Err { errno, .. }, _) => format!("err {}", sys::errname(*errno)),
            (Outcome::Panic(m), _) => {
                self.absolute.push((rec.idx, "panic".into(), m.clone()));
                "panic".into()
            }
            (o, _) => o.class(),
        };
        self.recs.push((rec.idx, format!("{kind}({path:?}) => {r}")));
    }
}

pub fn cleanup(dsts: &[(String, bool)]) {
    for (d, nofollow) in dsts.iter().rev() {
        for _ in 0..4 {
            let r = if *nofollow { sys::umount_nofollow(d.as_bytes()) } else { sys::umount(d.as_bytes()) };
            if r.is_err() {
                break;
            }
        }
    }
}

/// compare a run under mounts with its baseline
pub fn judge(case: &Case, base: &[(usize, String)], got: &H, op_shift: usize) -> Vec<(usize, String, String)> {
    let mut v: Vec<(usize, String, String)> = got.absolute.clone();
    let private = private_handle(case) && !got.ctor_faulted;
    // ops are shifted by the Sup op that the baseline does not have
    for (i, b) in base {
        let gi = got.recs.iter().find(|(k, _)| *k == i + op_shift);
        let g = match gi {
            Some((_, g)) => g,
            None => continue,
        };
        if g == b || g == "FAULTED-AND-FAILED" {
            continue;
        }
        let bres = b.split(" => ").nth(1).unwrap_or("");
        let gres = g.split(" => ").nth(1).unwrap_or("");
        if gres.starts_with("ok") {
            // open_follow of an ordinary in-procfs link whose body starts at self/ (net -> self/net,
            // mounts -> self/mounts) while /proc/self itself is replaced by a *symlink* mounted on
            // it: the kernel follows the body of the trailing link, unverified (known finding)
            let self_replaced_by_link = case.jobs[0].iter().any(|o| match &o.op {
                Op::Sup { muts } => muts.iter().any(|m| matches!(m, Mutation::MountOn { src, dst, .. } if src.starts_with("nofollow:") && (dst == "/proc/self" || dst == "/proc/thread-self"))),
                _ => false,
            }) || case.plan.script.iter().any(|d| d.attack.iter().any(|m| matches!(m, Mutation::MountOn { src, dst, .. } if src.starts_with("nofollow:") && (dst == "/proc/self" || dst == "/proc/thread-self"))));
            let follows_self_link = g.starts_with("follow(\"net\")") || g.starts_with("follow(\"mounts\")") || g.starts_with("follow(\"net/") ;
            let clause = if self_replaced_by_link && follows_self_link && !private { "different-object-under-mounts:follow-of-link-through-replaced-self" } else { "different-object-under-mounts" };
            v.push((i + op_shift, clause.into(), format!("without mounts: {b}; with mounts: {g}")));
        } else if private && bres.starts_with("ok") {
            v.push((i + op_shift, "private-handle-affected-by-mounts".into(), format!("handle is backed by a private procfs, yet without mounts: {b}; with mounts: {g}")));
        } else if private {
            // both errors but different: still an effect on a private handle
            v.push((i + op_shift, "private-handle-affected-by-mounts".into(), format!("without mounts: {b}; with mounts: {g}")));
        }
    }
    v
}

fn run_pair(u: &mut Universe, case: &Case, st: &mut Stats, sample: bool) -> bool {
    let bcase = baseline_of(case);
    let mut hb = H::new();
    hb.faulted_case = case.plan.seeded.is_some() || case.plan.script.iter().any(|d| d.fault.is_some());
    let outb = run_case(u, &bcase, &mut hb, false);
    if let Some(e) = &outb.harness_error {
        st.harness_errors.push(format!("baseline: {e}"));
        return false;
    }
    if u.poisoned {
        return true;
    }
    let mut h = H::new();
    h.faulted_case = case.plan.seeded.is_some() || case.plan.script.iter().any(|d| d.fault.is_some());
    if case.extra["remove_race"].as_bool() == Some(true) {
        h.mounted_ident = Some((0, 0)); // filled in when the Sup operation has placed the mount
    }
    let out = run_case(u, case, &mut h, false);
    // mounts placed by scripted decisions (race phase) are only known now: the absolute
    // clause "never an object of an attacker mount" is evaluated for them here
    if out.decisions.iter().any(|d| !d.attack.is_empty()) {
        h.note_mounts(&[]);
        let fr = h.fd_results.clone();
        for (i, kind, path, mnt, desc) in fr {
            if h.atk_mounts.contains(&mnt) && !h.absolute.iter().any(|(j, c, _)| *j == i && c == "returned-over-mounted-object") {
                h.absolute.push((i, "returned-over-mounted-object".into(), format!("{kind}({path:?}) returned {desc} which lives on mount {mnt} placed by the attacker while the lookup was running")));
            }
        }
    }
    for d in &out.decisions {
        for m in &d.attack {
            if let Mutation::MountOn { dst, nofollow, .. } = m {
                h.dsts.push((dst.clone(), *nofollow));
            }
        }
    }
    cleanup(&h.dsts);
    // mounts on symlink / magic-link dentries cannot always be removed by
    // path: a universe that has seen mounts is never reused (its private
    // mount namespace disappears with it)
    if !h.dsts.is_empty() && mount_ids() != hb.base_mounts {
        u.poisoned = true;
        st.count("mounts.universe_abandoned", 1);
    }
    if let Some(e) = &out.harness_error {
        st.harness_errors.push(format!("mounted: {e}"));
        return false;
    }
    st.merge_runout(&out);
    // where is the Sup op? baseline indices below it are unshifted
    let sup_at = case.jobs[0].iter().position(|o| matches!(o.op, Op::Sup { .. }));
    let base_shifted: Vec<(usize, String)> = hb.recs.iter().map(|(i, r)| (*i, r.clone())).collect();
    let mut problems = Vec::new();
    if hb.ctor_failed {
        return true;
    }
    match sup_at {
        Some(s) => {
            let (lo, hi): (Vec<_>, Vec<_>) = base_shifted.into_iter().partition(|(i, _)| *i < s);
            problems.extend(judge(case, &lo, &h, 0));
            let mut tmp = H::new();
            tmp.recs = h.recs.clone();
            tmp.ctor_faulted = h.ctor_faulted;
            problems.extend(judge(case, &hi, &tmp, 1));
        }
        None => problems.extend(judge(case, &base_shifted, &h, 0)),
    }
    for r in &out.records {
        if matches!(r.spec.op, Op::ProcOpen { .. } | Op::ProcReadlink { .. }) {
            st.evaluations += 1;
            st.count(&format!("outcome.{}", r.outcome.class().split(':').next().unwrap_or("")), 1);
        }
    }
    st.count("mounts.effective", h.atk_mounts.len() as u64);
    if !h.atk_mounts.is_empty() || !out.decisions.is_empty() {
        st.nontrivial.insert(case.hash());
    }
    let mut seen = std::collections::BTreeSet::new();
    for (i, clause, detail) in problems {
        if !seen.insert((i, clause.clone())) {
            continue;
        }
        let opn = case.jobs[0].get(i).map(|o| o.name()).unwrap_or("op");
        let v = mk_violation(case, &out, "C06", &clause, opn, detail);
        st.violation(&v);
    }
    if sample {
        st.sample(json!({"universe": case.uni.tag(), "ctor": case.extra["ctor"], "ctor_before_mounts": case.extra["ctor_before_mounts"], "private": private_handle(case),
            "mounts": case.jobs[0].iter().filter_map(|o| if let Op::Sup { muts } = &o.op { Some(muts.iter().map(|m| m.to_json()).collect::<Vec<_>>()) } else { None }).collect::<Vec<_>>(),
            "with_mounts": h.recs.iter().map(|(_, r)| r.clone()).collect::<Vec<_>>(), "without": hb.recs.iter().map(|(_, r)| r.clone()).collect::<Vec<_>>()}));
    }
    true
}

/// racing phase: one mount placed at every window of a non-following lookup (private and host-/proc handles)
/// run indices of the racing phases are (case * RACE_W + window), so that a universe that had to be
/// abandoned after a mount it could not remove is resumed at the next *window*, not the next case
pub const RACE_W: u64 = 96;

pub fn race_cases(u: &mut Universe, seed: u64, idx: u64, uni: &UniCfg, st: &mut Stats) -> bool {
    let (idx, window) = (idx / RACE_W, (idx % RACE_W) as usize);
    let mut rng = Rng::new(rng::derive(seed, "C06-race", idx));
    let tg = targets();
    let (dst, nofollow, dir, ls) = rng.pick(&tg).clone();
    let (base, path) = *rng.pick(&ls);
    let src = sources(dir, &mut rng);
    race_one(u, uni, st, &mut rng, dst, nofollow, &src, base, path, None, window, false)
}

/// enumerated part of the racing phase: (target, source, handle kind, lookup) fixed, every window
#[allow(clippy::type_complexity)]
pub fn race_matrix() -> Vec<(&'static str, bool, &'static str, Base, &'static str, ProcCtor, &'static str, i32, bool)> {
    let mut v = Vec::new();
    for (dst, nofollow, base, path) in [
        ("/proc/self/status", false, Base::SelfP, "status"),
        ("/proc/uptime", false, Base::Root, "uptime"),
        ("/proc/self/exe", true, Base::SelfP, "exe"),
        ("/proc/self", true, Base::SelfP, "status"),
        ("/proc/sys/kernel", false, Base::Root, "sys/kernel/ostype"),
    ] {
        for src in ["/proc/1/status", "/proc/version", "/mnt/w/outside/secret", "nofollow:/mnt/w/outside/to-pid1", "/proc/fs"] {
            let dir_dst = dst == "/proc/sys/kernel";
            if (src == "/proc/fs") != dir_dst {
                continue;
            }
            for (ctor, cname) in [(ProcCtor::FromPlainOpen, "plain-open"), (ProcCtor::FromOpenTreeRec, "open_tree-recursive"), (ProcCtor::New, "new")] {
                for (flags, readlink) in [(libc::O_RDONLY | libc::O_NONBLOCK, false), (libc::O_PATH, false), (0, true)] {
                    if readlink && path != "exe" {
                        continue;
                    }
                    v.push((dst, nofollow, src, base, path, ctor, cname, flags, readlink));
                }
            }
        }
    }
    v
}

/// the C API's global handle when it lives on the host's /proc (the new mount API refused):
/// (target, on the dentry itself, source, base, path, flags)
pub fn race_capi_matrix() -> Vec<(&'static str, bool, &'static str, Base, &'static str, i32)> {
    let mut v = Vec::new();
    for (dst, nofollow, base, path) in [("/proc/self/exe", true, Base::SelfP, "exe"), ("/proc/self/status", false, Base::SelfP, "status"), ("/proc/self/cwd", true, Base::SelfP, "cwd"), ("/proc/mounts", true, Base::Root, "mounts")] {
        for src in ["/mnt/w/outside/secret", "/proc/version", "/dev/null"] {
            for flags in [libc::O_PATH | libc::O_NOFOLLOW, libc::O_PATH, libc::O_RDONLY | libc::O_NONBLOCK | libc::O_NOFOLLOW] {
                v.push((dst, nofollow, src, base, path, flags));
            }
        }
    }
    v
}

pub fn race_capi_case(u: &mut Universe, idx: u64, uni: &UniCfg, st: &mut Stats) -> bool {
    let (idx, window) = (idx / RACE_W, (idx % RACE_W) as usize);
    let m = race_capi_matrix();
    let (dst, nofollow, src, base, path, flags) = m[idx as usize % m.len()];
    let mut rng = Rng::new(idx);
    race_one(u, uni, st, &mut rng, dst, nofollow, src, base, path, Some((None, "global", flags, false)), window, false)
}

/// remove-race over the same matrix (and the C API's global handle): the mount exists when the lookup
/// starts and is removed at one window
pub fn race_remove_case(u: &mut Universe, idx: u64, uni: &UniCfg, st: &mut Stats) -> bool {
    let (idx, window) = (idx / RACE_W, (idx % RACE_W) as usize);
    let m = race_matrix();
    let mut rng = Rng::new(idx);
    if (idx as usize) < m.len() {
        let (dst, nofollow, src, base, path, ctor, cname, flags, readlink) = m[idx as usize];
        race_one(u, uni, st, &mut rng, dst, nofollow, src, base, path, Some((Some(ctor), cname, flags, readlink)), window, true)
    } else {
        let mc = race_capi_matrix();
        let (dst, nofollow, src, base, path, flags) = mc[(idx as usize - m.len()) % mc.len()];
        race_one(u, uni, st, &mut rng, dst, nofollow, src, base, path, Some((None, "global", flags, false)), window, true)
    }
}

pub fn race_matrix_case(u: &mut Universe, idx: u64, uni: &UniCfg, st: &mut Stats) -> bool {
    let (idx, window) = (idx / RACE_W, (idx % RACE_W) as usize);
    let m = race_matrix();
    let (dst, nofollow, src, base, path, ctor, cname, flags, readlink) = m[idx as usize % m.len()];
    let mut rng = Rng::new(idx);
    race_one(u, uni, st, &mut rng, dst, nofollow, src, base, path, Some((Some(ctor), cname, flags, readlink)), window, false)
}

#[allow(clippy::too_many_arguments)]
fn race_one(u: &mut Universe, uni: &UniCfg, st: &mut Stats, rng: &mut Rng, dst: &str, nofollow: bool, src: &str, base: Base, path: &str, fixed: Option<(Option<ProcCtor>, &'static str, i32, bool)>, window: usize, remove: bool) -> bool {
    let src = src.to_string();
    // private handles must be unaffected; handles on the host's /proc (plain open, recursive
    // clone taken before the mount) may fail, but a success is never the over-mounted object
    let (ctor, cname) = if let Some((c, n, _, _)) = fixed { (c, n) } else { *rng.pick(&[
        (None, "global"),
        (Some(ProcCtor::New), "new"),
        (Some(ProcCtor::FromFsopen), "fsopen-unmasked"),
        (Some(ProcCtor::FromPlainOpen), "plain-open"),
        (Some(ProcCtor::FromPlainOpen), "plain-open"),
        (Some(ProcCtor::FromOpenTreeRec), "open_tree-recursive"),
    ]) };
    let handle = ctor.map(|_| 0usize);
    let facade = if handle.is_none() { Facade::C } else { Facade::Rust };
    let mut ops = Vec::new();
    if let Some(ct) = ctor {
        ops.push(OpSpec::new(Op::ProcNew { ctor: ct, store: 0 }));
    }
    let lk = match fixed {
        Some((_, _, _, true)) => OpSpec::new(Op::ProcReadlink { handle, base, path: path.into(), bufsz: 512 }).facade(facade),
        Some((_, _, flags, false)) => OpSpec::new(Op::ProcOpen { handle, base, path: path.into(), flags, follow: false }).facade(facade),
        None => lookup_op(rng, handle, base, path, facade, true),
    };
    if remove {
        // remove-race: the mount is there when the lookup starts and is taken away at one window
        ops.push(OpSpec::new(Op::Sup { muts: vec![Mutation::MountOn { src: src.clone(), dst: dst.into(), nofollow }] }));
    }
    ops.push(lk);
    let target_op = ops.len() - 1;
    let mk = |script: Vec<Dec>| {
        let mut c = Case::new("C06", if remove { "race-remove" } else { "race" }, uni.clone());
        c.world = Some(warm_world_with_outside());
        c.jobs = vec![ops.clone()];
        c.plan.script = script;
        c.extra = json!({"ctor": cname, "ctor_before_mounts": true, "remove_race": remove});
        c
    };
    let base_case = mk(vec![]);
    let mut h0 = H::new();
    let out0 = run_case(u, &base_case, &mut h0, false);
    if remove {
        cleanup(&[(dst.to_string(), nofollow)]);
        if mount_ids() != h0.base_mounts {
            u.poisoned = true;
            st.count("mounts.universe_abandoned", 1);
        }
    }
    if out0.harness_error.is_some() || u.poisoned {
        return !u.poisoned;
    }
    let wins: Vec<usize> = out0.trace.iter().filter(|e| e.lib && e.op == Some(target_op) && e.nr != crate::seam::HYPERCALL_NR).map(|e| e.step).collect();
    if window == 0 && remove {
        st.count("race.remove_windows_total", wins.len() as u64);
    } else if window == 0 {
        st.count("race.windows_total", wins.len() as u64);
        st.count("race.windows_beyond_bound", wins.len().saturating_sub(RACE_W as usize) as u64);
    }
    for w in wins.into_iter().skip(window).take(1) {
        let atk = if remove { Mutation::Umount { path: if nofollow { format!("nofollow:{dst}") } else { dst.to_string() } } } else { Mutation::MountOn { src: src.clone(), dst: dst.into(), nofollow } };
        let case = mk(vec![Dec { step: w, attack: vec![atk], ..Default::default() }]);
        if !run_pair(u, &case, st, false) {
            return false;
        }
        st.count(if remove { "race.remove_windows_covered" } else { "race.windows_covered" }, 1);
        if u.poisoned {
            return false;
        }
    }
    true
}

pub fn run(u: &mut Universe, b: &Batch, st: &mut Stats) {
    if let Err(e) = warm_up(u) {
        st.harness_errors.push(format!("warm-up: {e}"));
        return;
    }
    for idx in b.lo..b.hi {
        coord::progress(idx);
        match b.phase.as_str() {
            "replay" => {
                let case = match Case::from_json(&b.extra["case"]) {
                    Some(c) => c,
                    None => return,
                };
                run_pair(u, &case, st, false);
            }
            "race" => {
                if !race_cases(u, b.seed, idx, &b.uni, st) {
                    return;
                }
            }
            "fault-enum" => {
                if !run_fault_enum(u, b, idx, st) {
                    return;
                }
            }
            "fault-race" => {
                if !run_fault_race(u, b, idx, st) {
                    return;
                }
            }
            "canonical" => {
                let case = canonical_cases(&b.uni)[idx as usize].clone();
                if !run_pair(u, &case, st, false) {
                    return;
                }
            }
            "race-matrix" => {
                if !race_matrix_case(u, idx, &b.uni, st) {
                    return;
                }
            }
            "race-capi" => {
                if !race_capi_case(u, idx, &b.uni, st) {
                    return;
                }
            }
            "race-remove" => {
                if !race_remove_case(u, idx, &b.uni, st) {
                    return;
                }
            }
            _ => {
                let case = gen_case(b.seed, idx, &b.uni);
                if !run_pair(u, &case, st, idx == b.lo) {
                    return;
                }
            }
        }
        if u.poisoned {
            return;
        }
    }
}

pub fn finalise(tier: &str, seed: u64, res: coord::CheckResult) -> i32 {
    let mut extra = Map::new();
    let c = &res.stats.counters;
    extra.insert("race_enumeration".into(), json!({"windows_total": c.get("race.windows_total"), "windows_covered": c.get("race.windows_covered"), "remove_windows_total": c.get("race.remove_windows_total"), "remove_windows_covered": c.get("race.remove_windows_covered")}));
    extra.insert("mount_targets".into(), json!(targets().iter().map(|t| t.0).collect::<Vec<_>>()));
    let _: Option<&RunOut> = None;
    coord::finalise(
        "C06",
        tier,
        seed,
        "exploration",
        "one evaluation = one procfs lookup (open, open_follow, readlink; Rust handle or the C API's global handle) executed twice: on a clean /proc and with 1-3 mounts placed by the simulated attacker (fd-based move_mount exactly on the dentry, so symlinks and magic-links can be over-mounted) on files, directories, in-procfs symlinks, magic-links, /proc/self, /proc/thread-self and /proc itself - tmpfs, bind of a foreign file/directory, bind of another procfs file/directory, bind of a magic-link target, bind of a symlink as such (a foreign link that leads into another process's directory, procfs's own links); handle kinds: fsopen (subset and unmasked), open_tree non-recursive and recursive (taken before or after the mounts), plain open, global; universes K/E x new mount API {available, fsopen refused, all refused}, plus E with a statx that predates STATX_MNT_ID_UNIQUE (Linux 5.8 - 6.7); oracles: a successful result never lives on a mount the attacker placed nor is the mounted object; a handle backed by a private procfs gives exactly the result it gives without the mounts; any other handle gives that result or an error; race-capi: the same for the C API's global handle when it lives on the host's /proc (new mount API refused), with the flag sets C callers use for 'the link itself' (O_PATH|O_NOFOLLOW); race phase: for non-following lookups one mount is placed at every window of the lookup, on private handles (must be unaffected) and on handles that live on the host's /proc (plain open, recursive clone: may fail, a success is never the over-mounted object); race-remove: the mount is in place when the lookup starts and is removed at every window of it (same matrix, plus the C API's global handle) - a private handle gives its baseline result, any other handle the baseline result or an error, never the object that had been mounted (compared by inode through the mount, since the id of a removed mount can be reused); non-trivial = at least one attacker mount took effect; distinct = hash of the case",
        res,
        extra,
        vec!["requires statx mount ids (Linux 5.8+), as the statement does".into(), "the final-component race of open_follow on non-private handles is outside the statement and not asserted".into()],
        false,
        &|b, run| if b.phase == "static" { Some(gen_case(b.seed, run, &b.uni)) } else { None },
    )
    .exit_code
}
