//! C02 - lookups never escape the root under any attacker schedule.
use super::attack::{self, Attacker};
use super::*;
use crate::case::{mk_violation, Case};
use crate::coord::{self, Batch, Stats};
use crate::gen;
use crate::ops::OpSpec;
use crate::rng::{self, Rng};
use crate::sup::{Dec, Plan, RunOut, Seeded};
use serde_json::{json, Map, Value};

pub const SWARM_PER_BATCH: u64 = 250;

pub fn plan(tier: &str, seed: u64) -> Vec<Batch> {
    let (swarm_batches, flip) = match tier {
        "thorough" => (300, 60),
        "dev" => (1, 1),
        _ => (10, 4),
    };
    let mut v = Vec::new();
    let nl = attack::race_lookups().len() as u64;
    let nm = (attack::race_mutations().len() + attack::race_compound().len()) as u64;
    for uni in [UniCfg::e(), UniCfg::k()] {
        // exhaustive single placement: one batch per lookup scenario
        for i in 0..nl {
            v.push(Batch { check: "C02".into(), phase: "enum".into(), uni: uni.clone(), seed, lo: i * nm, hi: (i + 1) * nm, fresh: false, tier: tier.into(), extra: Value::Null });
        }
        // one attacker move *and* one resource fault (a verification step of the library that cannot
        // be carried out), every pair of positions: emulated backend, lookups whose walk ends in ".."
        if uni.no_openat2 {
            // history: one fault somewhere in the *first* lookup of a process (where the library
            // initialises whatever it keeps for later), then the racing lookups of the catalogue
            let total = FIRST_USE_STEPS * FIRST_USE_ERRNOS.len() as u64;
            let stride = if tier == "thorough" { 1 } else { 3 };
            let mut lo = 0;
            while lo < total {
                v.push(Batch { check: "C02".into(), phase: "first-use-then-race".into(), uni: uni.clone(), seed, lo, hi: (lo + 24).min(total), fresh: true, tier: tier.into(), extra: json!({"stride": stride}) });
                lo += 24;
            }
            let n = (fault_pair_lookups().len() * fault_pair_moves().len()) as u64;
            for i in 0..n {
                for shard in 0..4u64 {
                    v.push(Batch { check: "C02".into(), phase: "enum-fault".into(), uni: uni.clone(), seed, lo: i, hi: i + 1, fresh: false, tier: tier.into(), extra: json!({"shard": shard, "shards": 4}) });
                }
            }
        }
        for i in 0..flip {
            v.push(Batch { check: "C02".into(), phase: "flipflop".into(), uni: uni.clone(), seed, lo: i * 200, hi: (i + 1) * 200, fresh: false, tier: tier.into(), extra: Value::Null });
        }
        for i in 0..swarm_batches {
            v.push(Batch { check: "C02".into(), phase: "swarm".into(), uni: uni.clone(), seed, lo: i * SWARM_PER_BATCH, hi: (i + 1) * SWARM_PER_BATCH, fresh: false, tier: tier.into(), extra: Value::Null });
        }
    }
    v
}

pub const FIRST_USE_STEPS: u64 = 160;
pub const FIRST_USE_ERRNOS: [i32; 3] = [libc::EMFILE, libc::ENOMEM, libc::EIO];

/// in one (fresh) universe: a faulted first lookup, then a racing lookup under every window
fn run_first_use_then_race(u: &mut Universe, b: &Batch, idx: u64, st: &mut Stats) {
    let stride = b.extra["stride"].as_u64().unwrap_or(1);
    if idx % stride != b.seed % stride {
        return;
    }
    let step = (idx / FIRST_USE_ERRNOS.len() as u64) as usize;
    let errno = FIRST_USE_ERRNOS[(idx % FIRST_USE_ERRNOS.len() as u64) as usize];
    let w = attack::race_world();
    // 1. the first lookup of the process, with one fault
    let mut first = fault_pair_case(&b.uni, 3, vec![Dec { step, fault: Some(crate::sup::Fault::Errno(errno)), ..Default::default() }]);
    first.phase = "first-use-then-race".into();
    first.fresh = true;
    let mut atk = Attacker::new(&w);
    let out1 = run_case(u, &first, &mut atk, false);
    if out1.harness_error.is_some() || u.poisoned {
        return;
    }
    if out1.records.iter().all(|r| r.faults_inside == 0) {
        st.count("first_use_then_race.fault_beyond_the_first_lookup", 1);
        return;
    }
    st.count("first_use_then_race.universes", 1);
    // 2. the same process, later: racing lookups (moves at every window)
    let thorough = b.tier == "thorough";
    for li in if thorough { vec![1usize, 3] } else { vec![3usize] } {
        let mut atk = Attacker::new(&w);
        let out0 = run_case(u, &fault_pair_case(&b.uni, li, vec![]), &mut atk, false);
        if out0.harness_error.is_some() || u.poisoned {
            return;
        }
        let wins = lib_windows(&out0, 0);
        for mv in fault_pair_moves().into_iter().take(if thorough { 2 } else { 1 }) {
            for (wi, &wd) in wins.iter().enumerate() {
                if !thorough && wi % 2 != (idx as usize) % 2 {
                    continue;
                }
                let mut case = fault_pair_case(&b.uni, li, vec![Dec { step: wd, attack: vec![mv.clone()], ..Default::default() }]);
                case.phase = "first-use-then-race".into();
                case.extra = json!({"first_lookup_fault": {"step": step, "errno": sys::errname(errno)}, "note": "to reproduce: a fresh process whose first lookup (resolve a/b/c/d/../../../../etc/passwd, C facade) gets this fault, then this case"});
                let mut atk = Attacker::new(&w);
                let mut out = run_case(u, &case, &mut atk, false);
                if out.harness_error.is_some() {
                    return;
                }
                st.count("first_use_then_race.windows", 1);
                eval(&case, &mut out, &atk, st);
                if u.poisoned {
                    return;
                }
            }
        }
    }
}

pub fn fault_pair_lookups() -> Vec<OpSpec> {
    let o = OpSpec::new;
    vec![
        o(Op::Resolve { path: "a/b/..".into(), nofollow: false }),
        o(Op::Resolve { path: "a/b/c/../..".into(), nofollow: false }),
        o(Op::OpenSubpath { path: "a/b/c/d/../..".into(), flags: libc::O_RDONLY | libc::O_DIRECTORY }),
        o(Op::Resolve { path: "a/b/c/d/../../../../etc/passwd".into(), nofollow: false }).c(),
    ]
}

pub fn fault_pair_moves() -> Vec<crate::world::Mutation> {
    let mv = |src: &str, dst: &str| crate::world::Mutation::Rename { src: src.into(), dst: dst.into() };
    vec![mv("root/a/b", "outside/landing/moved-b"), mv("root/a/b/c", "outside/landing/moved-c"), mv("root/a/b", "root (deleted)/b")]
}

fn fault_pair_case(uni: &UniCfg, li: usize, script: Vec<Dec>) -> Case {
    let mut c = Case::new("C02", "enum-fault", uni.clone());
    c.world = Some(attack::race_world());
    c.jobs = vec![vec![fault_pair_lookups()[li].clone()]];
    c.plan.script = script;
    c
}

pub fn gen_swarm_case(seed: u64, idx: u64, uni: &UniCfg) -> Case {
    let mut rng = Rng::new(rng::derive(seed, "C02", idx));
    let mut c = Case::new("C02", "swarm", uni.clone());
    let race = rng.chance(1, 3);
    let (world, ops): (crate::world::WorldSpec, Vec<OpSpec>) = if race {
        let l = attack::race_lookups();
        (attack::race_world(), (0..5).map(|_| rng.pick(&l).clone()).collect())
    } else {
        let mut wp = gen::WorldParams::swarm(&mut rng);
        wp.link_density = *rng.pick(&[150u64, 300, 500]);
        wp.depth = rng.range(2, 4) as usize;
        let w = gen::gen_world(&mut rng, &wp);
        let ops = (0..6).map(|_| super::c01::gen_lookup_op(&mut rng, &w, wp.alphabet)).collect();
        (w, ops)
    };
    c.world = Some(world);
    c.jobs = vec![ops];
    // E: a lookup has ~100 windows; K: a handful
    let p_attack = if uni.no_openat2 { *rng.pick(&[20u64, 50, 100, 200]) } else { *rng.pick(&[200u64, 400, 700]) };
    c.plan = Plan { seeded: Some(Seeded { seed: rng.next(), p_switch: 0, p_attack, p_fault: 0, max_attacks: rng.range(1, 8) as usize, pct_depth: 0 }), ..Default::default() };
    // K: the in-kernel walk is one step; what libpathrs adds is the EAGAIN retry
    // loop - drive it with injected EAGAIN runs so that the attacker gets
    // windows between the retries
    if !uni.no_openat2 && rng.chance(1, 3) {
        c.plan.eagain = Some((rng.below(4) as usize, *rng.pick(&[1usize, 2, 3, 8, 15, 16, 20])));
    }
    // a quarter of the runs also meets transient faults (errnos of the per-call catalogue): the
    // containment promise does not depend on every verification step succeeding
    if rng.chance(1, 4) {
        if let Some(s) = c.plan.seeded.as_mut() {
            s.p_fault = *rng.pick(&[20u64, 50, 100]);
        }
    }
    c.extra = json!({"race_world": race});
    c
}

fn eval(case: &Case, out: &mut RunOut, atk: &Attacker, st: &mut Stats) {
    attack::probes(out);
    st.merge_runout(out);
    for r in &out.records {
        st.evaluations += 1;
        st.count(&format!("outcome.{}", r.outcome.class().split(':').next().unwrap_or("")), 1);
        if r.attacks_inside > 0 {
            let mut hh = case.hash();
            sys::fnv(&mut hh, format!("{}|{:?}", r.idx, out.decisions.iter().filter(|d| d.step >= r.begin_step && d.step <= r.end_step).map(|d| d.to_json().to_string()).collect::<Vec<_>>()).as_bytes());
            st.nontrivial.insert(hh);
        }
    }
    for (i, d) in &atk.escaped {
        let v = mk_violation(case, out, "C02", "returned-never-inside", case.jobs[0][*i].name(), d.clone());
        st.violation(&v);
    }
    for (clause, detail, _) in attack::seam_containment(out, true, false) {
        let v = mk_violation(case, out, "C02", &clause, "lookup", detail);
        st.violation(&v);
    }
    if out.hang || out.budget_exceeded {
        let v = mk_violation(case, out, "C02", "lookup-does-not-terminate", "lookup", "step budget exceeded or hang under attack".into());
        st.violation(&v);
    }
}

fn lib_windows(out: &RunOut, op: usize) -> Vec<usize> {
    out.trace.iter().filter(|e| e.lib && e.op == Some(op) && e.nr != crate::seam::HYPERCALL_NR && e.nr != libc::SYS_futex).map(|e| e.step).collect()
}

pub fn enum_case(uni: &UniCfg, li: usize, script: Vec<Dec>) -> Case {
    let mut c = Case::new("C02", "enum", uni.clone());
    c.world = Some(attack::race_world());
    c.jobs = vec![vec![attack::race_lookups()[li].clone()]];
    c.plan.script = script;
    c
}

pub fn run(u: &mut Universe, b: &Batch, st: &mut Stats) {
    // (the first-use phase must meet the library uninitialised)
    if b.phase == "first-use-then-race" {
        for idx in b.lo..b.hi {
            coord::progress(idx);
            run_first_use_then_race(u, b, idx, st);
        }
        return;
    }
    if let Err(e) = warm_up(u) {
        st.harness_errors.push(format!("warm-up: {e}"));
        return;
    }
    let mut muts: Vec<(Vec<crate::world::Mutation>, Option<crate::world::Mutation>)> = attack::race_mutations().into_iter().map(|(m, u)| (vec![m], u)).collect();
    muts.extend(attack::race_compound().into_iter().map(|c| (c, None)));
    let nm = muts.len() as u64;
    for idx in b.lo..b.hi {
        coord::progress(idx);
        match b.phase.as_str() {
            "replay" => {
                let case = match Case::from_json(&b.extra["case"]) {
                    Some(c) => c,
                    None => return,
                };
                let w = case.world.clone().unwrap_or_default();
                let mut atk = Attacker::new(&w);
                let mut out = run_case(u, &case, &mut atk, false);
                eval(&case, &mut out, &atk, st);
                for l in out.render_trace() {
                    crate::sup::diag(&l);
                }
            }
            "swarm" => {
                let case = gen_swarm_case(b.seed, idx, &b.uni);
                let w = case.world.clone().unwrap();
                let mut atk = Attacker::new(&w);
                if case.extra["race_world"].as_bool() == Some(true) {
                    atk.catalogue = Some(attack::race_mutations());
                    atk.compound = attack::race_compound();
                }
                let mut out = run_case(u, &case, &mut atk, false);
                if let Some(e) = &out.harness_error {
                    st.harness_errors.push(format!("swarm {idx}: {e}"));
                    return;
                }
                eval(&case, &mut out, &atk, st);
                if idx == b.lo {
                    st.sample(json!({"phase": "swarm", "universe": b.uni.tag(), "case": case.with_explicit(&out.decisions).to_json(), "outcomes": out.records.iter().map(|r| r.outcome.class()).collect::<Vec<_>>()}));
                }
            }
            "first-use-then-race" => {
                run_first_use_then_race(u, b, idx, st);
            }
            "enum-fault" => {
                let nmv = fault_pair_moves().len();
                let li = idx as usize / nmv;
                let mv = fault_pair_moves()[idx as usize % nmv].clone();
                let shard = b.extra["shard"].as_u64().unwrap_or(0) as usize;
                let shards = b.extra["shards"].as_u64().unwrap_or(1) as usize;
                let w = attack::race_world();
                let mut atk = Attacker::new(&w);
                let out0 = run_case(u, &fault_pair_case(&b.uni, li, vec![]), &mut atk, false);
                if let Some(e) = &out0.harness_error {
                    st.harness_errors.push(format!("enum-fault {idx}: {e}"));
                    return;
                }
                let sites: Vec<(usize, i64)> = out0.trace.iter().filter(|e| e.lib && e.op == Some(0) && e.nr != crate::seam::HYPERCALL_NR && e.nr != libc::SYS_futex).map(|e| (e.step, e.nr)).collect();
                // the fault lands within the next 32 calls after the move (quick: every fourth pair)
                let stride = if b.tier == "thorough" { 1 } else { 4 };
                let mut k = 0usize;
                for (i1, (w1, _)) in sites.iter().enumerate() {
                    for (i2, (w2, nr2)) in sites.iter().enumerate() {
                        if i2 <= i1 || i2 > i1 + 32 {
                            continue;
                        }
                        // the step numbers after the move may belong to other calls than in the
                        // fault-free trace; what matters is "a resource fault somewhere later"
                        for e in [libc::EMFILE, libc::ENOMEM, libc::ENAMETOOLONG] {
                            if e == libc::ENAMETOOLONG {
                                // not a placement but a condition of the whole run: once per move window
                                if i2 != i1 + 1 {
                                    continue;
                                }
                            } else if !crate::sup::fault_catalogue(*nr2).iter().any(|f| matches!(f, crate::sup::Fault::Errno(x) if *x == e || *x == libc::ENFILE)) {
                                continue;
                            }
                            k += 1;
                            // (the few readlink sites - the containment checks - are all covered)
                            let stride = if e == libc::ENAMETOOLONG { 1 } else { stride };
                            if k % shards != shard || (k / shards) % stride != 0 {
                                continue;
                            }
                            let case = if e == libc::ENAMETOOLONG {
                                // whatever is moved out of the root ends up nested deeper than PATH_MAX:
                                // *every* later readlink of such a descriptor's path fails (the root's
                                // own path, and everything still inside it, reads fine)
                                let mut c = fault_pair_case(&b.uni, li, vec![Dec { step: *w1, attack: vec![mv.clone()], ..Default::default() }]);
                                c.plan.outside_too_long = true;
                                c
                            } else {
                                fault_pair_case(&b.uni, li, vec![Dec { step: *w1, attack: vec![mv.clone()], ..Default::default() }, Dec { step: *w2, fault: Some(crate::sup::Fault::Errno(e)), ..Default::default() }])
                            };
                            let mut atk = Attacker::new(&w);
                            let mut out = run_case(u, &case, &mut atk, false);
                            if let Some(e) = &out.harness_error {
                                st.harness_errors.push(format!("enum-fault {idx}@{w1},{w2}: {e}"));
                                return;
                            }
                            st.count("enum_fault.pairs_covered", 1);
                            if e == libc::ENAMETOOLONG && std::env::var_os("DBG_C02").is_some() {
                                eprintln!("DBG li={li} w1={w1} w2={w2} outcome={:?} faults={:?} attacks={:?}", out.records.iter().map(|r| r.outcome.class()).collect::<Vec<_>>(), out.faults_fired, out.attacks_applied);
                            }
                            eval(&case, &mut out, &atk, st);
                            if u.poisoned {
                                return;
                            }
                        }
                    }
                }
            }
            "enum" => {
                let li = (idx / nm) as usize;
                let mi = (idx % nm) as usize;
                let w = attack::race_world();
                // fault-free trace defines the windows
                let base = enum_case(&b.uni, li, vec![]);
                let mut atk = Attacker::new(&w);
                let out0 = run_case(u, &base, &mut atk, false);
                if let Some(e) = &out0.harness_error {
                    st.harness_errors.push(format!("enum {idx}: {e}"));
                    return;
                }
                let wins = lib_windows(&out0, 0);
                st.count("enum.windows_total", wins.len() as u64);
                // quick tier, emulated backend (~100 windows per lookup): every
                // window is still visited, by every second mutation of the catalogue
                let stride = if b.tier == "thorough" || !b.uni.no_openat2 { 1 } else { 2 };
                for (wi, &wd) in wins.iter().enumerate() {
                    if (wi + mi) % stride != 0 {
                        continue;
                    }
                    let case = enum_case(&b.uni, li, vec![Dec { step: wd, attack: muts[mi].0.clone(), ..Default::default() }]);
                    let mut atk = Attacker::new(&w);
                    let mut out = run_case(u, &case, &mut atk, false);
                    if let Some(e) = &out.harness_error {
                        st.harness_errors.push(format!("enum {idx}@{wd}: {e}"));
                        return;
                    }
                    st.count("enum.windows_covered", 1);
                    eval(&case, &mut out, &atk, st);
                    if u.poisoned {
                        return;
                    }
                }
                st.count("enum.scenarios", 1);
            }
            _ => {
                // flip-flop pairs: mutation at w1, its inverse at w2 > w1
                let mut rng = Rng::new(rng::derive(b.seed, "C02-flip", idx));
                let li = rng.below(attack::race_lookups().len() as u64) as usize;
                let (m, undo) = rng.pick(&muts).clone();
                let (m, undo) = match (m.into_iter().next(), undo) {
                    (Some(m), Some(u)) => (m, u),
                    _ => continue,
                };
                let w = attack::race_world();
                let base = enum_case(&b.uni, li, vec![]);
                let mut atk = Attacker::new(&w);
                let out0 = run_case(u, &base, &mut atk, false);
                let wins = lib_windows(&out0, 0);
                if wins.len() < 2 {
                    continue;
                }
                let a = rng.below(wins.len() as u64 - 1) as usize;
                let bq = a + 1 + rng.below((wins.len() - a - 1) as u64) as usize;
                // the trace after w1 may differ from the fault-free one; w2 is a step number, which is what "later" means
                let case = enum_case(
                    &b.uni,
                    li,
                    vec![Dec { step: wins[a], attack: vec![m], ..Default::default() }, Dec { step: wins[bq], attack: vec![undo], ..Default::default() }],
                );
                let mut c2 = case.clone();
                c2.phase = "flipflop".into();
                let mut atk = Attacker::new(&w);
                let mut out = run_case(u, &c2, &mut atk, false);
                if let Some(e) = &out.harness_error {
                    st.harness_errors.push(format!("flipflop {idx}: {e}"));
                    return;
                }
                st.count("flipflop.runs", 1);
                eval(&c2, &mut out, &atk, st);
            }
        }
        if u.poisoned {
            return;
        }
    }
}

pub fn finalise(tier: &str, seed: u64, res: coord::CheckResult) -> i32 {
    let mut extra = Map::new();
    let c = &res.stats.counters;
    extra.insert(
        "enumeration".into(),
        json!({"scenarios": c.get("enum.scenarios"), "windows_total_x_mutations": c.get("enum.windows_covered"), "windows_covered": c.get("enum.windows_covered"),
               "note": "every (lookup scenario, mutation of the catalogue, window of the fault-free trace) is executed once; scenarios x mutations counted in 'scenarios'"}),
    );
    coord::finalise(
        "C02",
        tier,
        seed,
        "exploration",
        "one evaluation = one lookup during which the simulated attacker may mutate the tree before any trapped system call; phases: exhaustive single placement (race world: every lookup scenario x every catalogue mutation x every window), first-use-then-race (fresh process: one fault at every system call of the first lookup, then racing lookups with a move at every window - whatever the library keeps from its first use must not weaken later lookups), one attacker move plus one resource fault at every pair of positions (emulated backend, lookups ending in '..', the fault within the 32 calls after the move; quick: every fourth pair), flip-flop pairs (mutation at w1, inverse at w2>w1, sampled), seeded swarm on generated worlds with decoys; non-trivial = at least one attacker mutation took effect strictly inside the lookup; distinct = distinct hash of (world, ops, explicit decision list)",
        res,
        extra,
        vec![
            "the in-kernel walk of one openat2 call is a single step (K universe): races inside it are the kernel's".into(),
            "attacker mutations are placed only at trapped system calls of the caller thread".into(),
            "any error is an acceptable outcome under attack; only a successful result is held to containment".into(),
        ],
        false,
        &|b, run| match b.phase.as_str() {
            "swarm" => Some(gen_swarm_case(b.seed, run, &b.uni)),
            _ => None,
        },
    )
    .exit_code
}
