//! C14 - single-entry operations act on exactly (in-root parent, final name).
//! Twin worlds: the libpathrs operation on world A, the reference procedure
//! (raw in-root parent lookup + raw *at call) on an identical world B.
use super::*;
use crate::case::{mk_violation, Case};
use crate::coord::{self, Batch, Stats};
use crate::gen;
use crate::ops::{CreateKind, Facade, Op, OpSpec, Outcome};
use crate::rng::{self, Rng};
use crate::sup::{Hooks, OpRecord, RunCtx};
use crate::world::{World, WorldSpec};
use serde_json::{json, Map, Value};

pub const PER_BATCH: u64 = 300;
pub const OPS: usize = 4;

pub fn plan(tier: &str, seed: u64) -> Vec<Batch> {
    let n = match tier {
        "thorough" => 600,
        "dev" => 1,
        _ => 60,
    };
    let mut v = Vec::new();
    for uni in [UniCfg::k(), UniCfg::e()] {
        for i in 0..n {
            v.push(Batch { check: "C14".into(), phase: "twin".into(), uni: uni.clone(), seed, lo: i * PER_BATCH, hi: (i + 1) * PER_BATCH, fresh: false, tier: tier.into(), extra: Value::Null });
        }
        // the same twins with transient faults inside the library's calls: an operation that still
        // reports success must have had exactly the reference effect
        // canonical operations under every (system call, errno of its catalogue)
        for sc in 0..fault_scenarios().len() as u64 {
            v.push(Batch { check: "C14".into(), phase: "fault-enum".into(), uni: uni.clone(), seed, lo: sc, hi: sc + 1, fresh: false, tier: tier.into(), extra: Value::Null });
        }
        // RENAME_NOREPLACE against a destination that appears while the call runs (every window), on
        // a kernel with renameat2 and on one without
        for norename in [false, true] {
            let mut u2 = uni.clone();
            u2.no_renameat2 = norename;
            v.push(Batch { check: "C14".into(), phase: "noreplace-race".into(), uni: u2, seed, lo: 0, hi: 3, fresh: false, tier: tier.into(), extra: Value::Null });
        }
        for i in 0..(n / 3).max(1) {
            v.push(Batch { check: "C14".into(), phase: "faulted".into(), uni: uni.clone(), seed, lo: i * PER_BATCH, hi: (i + 1) * PER_BATCH, fresh: false, tier: tier.into(), extra: Value::Null });
        }
    }
    v
}

pub fn gen_op(rng: &mut Rng, spec: &WorldSpec, alphabet: usize) -> OpSpec {
    let ents = gen::inroot_paths(spec);
    let existing = |rng: &mut Rng| -> String {
        if rng.chance(1, 4) || ents.is_empty() {
            gen::gen_path(rng, spec, alphabet)
        } else {
            let mut p = rng.pick(&ents).0.clone();
            match rng.below(14) {
                0 => p.push('/'),
                1 => p = format!("/{p}"),
                2 => p = format!("./{p}"),
                3 => p.push_str("/.."),
                4 => p.push_str("/."),
                5 => p = p.replace('/', "//"),
                _ => {}
            }
            p
        }
    };
    let newp = |rng: &mut Rng| gen::gen_new_path(rng, spec, alphabet);
    let facade_c = rng.chance(1, 3);
    let op = match rng.below(18) {
        0 => Op::Create { path: newp(rng), kind: CreateKind::File(*rng.pick(&[0o644u32, 0o600, 0o4755, 0o777])) },
        1 => Op::Create { path: newp(rng), kind: CreateKind::Dir(*rng.pick(&[0o755u32, 0o700, 0o1777])) },
        2 => Op::Create { path: newp(rng), kind: CreateKind::Symlink((*rng.pick(&["target", "../x", "/abs/olute", "a/b/", ".", "dangling/../x"])).to_string()) },
        3 => Op::Create { path: newp(rng), kind: CreateKind::Hardlink(existing(rng)) },
        4 => Op::Create { path: newp(rng), kind: CreateKind::Fifo(0o600) },
        5 => {
            // device numbers with more than 8 bits of major / minor (a truncating cast keeps 8)
            let dev = *rng.pick(&[libc::makedev(1, 3), libc::makedev(1, 3), libc::makedev(259, 300), libc::makedev(4095, 1_048_575), libc::makedev(0, 256), libc::makedev(256, 0)]);
            if rng.chance(1, 3) {
                Op::Create { path: newp(rng), kind: CreateKind::Blk(0o660, dev) }
            } else {
                Op::Create { path: newp(rng), kind: CreateKind::Chr(0o666, dev) }
            }
        }
        6 => Op::Create { path: existing(rng), kind: CreateKind::Dir(0o755) },
        7 if facade_c => Op::Create { path: newp(rng), kind: CreateKind::RawMknod(*rng.pick(&[0o644u32, libc::S_IFREG | 0o600, libc::S_IFSOCK | 0o600, 0o170000 | 0o600, libc::S_IFDIR | 0o700, libc::S_IFIFO | 0o640]), 0) },
        7 | 8 | 9 => Op::CreateFile {
            path: if rng.chance(2, 3) { newp(rng) } else { existing(rng) },
            flags: libc::O_NONBLOCK | *rng.pick(&[libc::O_RDWR, libc::O_WRONLY, libc::O_RDONLY, libc::O_RDWR | libc::O_EXCL, libc::O_WRONLY | libc::O_TRUNC, libc::O_WRONLY | libc::O_APPEND, libc::O_RDWR | libc::O_CLOEXEC]),
            mode: *rng.pick(&[0o644u32, 0o600, 0o755]),
        },
        10 | 11 => Op::RemoveFile { path: existing(rng) },
        12 | 13 => Op::RemoveDir { path: existing(rng) },
        _ => Op::Rename { src: existing(rng), dst: if rng.chance(1, 2) { newp(rng) } else { existing(rng) }, flags: *rng.pick(&[0u32, 0, 0, 1, 1, 2, 4, 3, 8, 0x11, 0x8000_0000]) },
    };
    let mut s = OpSpec::new(op);
    if facade_c {
        s.facade = Facade::C;
    } else if rng.chance(1, 6) {
        s.no_symlinks = true;
    }
    s
}

pub fn gen_case(seed: u64, idx: u64, uni: &UniCfg) -> Case {
    let mut rng = Rng::new(rng::derive(seed, "C14", idx));
    let mut wp = gen::WorldParams::swarm(&mut rng);
    wp.decoys = rng.chance(1, 3);
    let world = gen::gen_world(&mut rng, &wp);
    let mut c = Case::new("C14", "twin", uni.clone());
    let ops = (0..OPS).map(|_| gen_op(&mut rng, &world, wp.alphabet)).collect();
    c.world = Some(world);
    c.jobs = vec![ops];
    c.umask = *rng.pick(&[0o022u32, 0o022, 0, 0o077, 0o027]);
    c
}

pub fn fault_world() -> WorldSpec {
    let mut w = WorldSpec::default();
    w.push(crate::world::Entry::dir("root"));
    w.push(crate::world::Entry::file("root/d/src", "SRC"));
    w.push(crate::world::Entry::file("root/d/precious", "PRECIOUS"));
    w.push(crate::world::Entry::file("root/e/other", "OTHER"));
    w.push(crate::world::Entry::dir("root/e/sub"));
    w.push(crate::world::Entry::link("root/l", "d"));
    w.push(crate::world::Entry::link("root/e/dangling", "/mnt/w/outside/nothing-here"));
    w.push(crate::world::Entry::file("outside/secret", "OUTSIDE-SECRET"));
    w
}

pub fn fault_scenarios() -> Vec<OpSpec> {
    let o = OpSpec::new;
    let s = |x: &str| x.to_string();
    vec![
        o(Op::Rename { src: s("d/src"), dst: s("d/precious"), flags: 1 }), // RENAME_NOREPLACE onto an existing entry
        o(Op::Rename { src: s("d/src"), dst: s("e/other"), flags: 2 }),    // RENAME_EXCHANGE
        o(Op::Rename { src: s("d/src"), dst: s("e/new"), flags: 1 }),
        o(Op::Rename { src: s("l/src"), dst: s("e/sub/x"), flags: 0 }),
        o(Op::Rename { src: s("d/src"), dst: s("d/precious"), flags: 1 }).c(),
        o(Op::Rename { src: s("d/src"), dst: s("e/gone"), flags: 4 }), // RENAME_WHITEOUT
        o(Op::Create { path: s("e/sub/hl"), kind: CreateKind::Hardlink(s("d/src")) }),
        o(Op::Create { path: s("e/newdir"), kind: CreateKind::Dir(0o750) }),
        o(Op::Create { path: s("e/fifo"), kind: CreateKind::Fifo(0o640) }),
        o(Op::Create { path: s("e/sl"), kind: CreateKind::Symlink(s("../d/src")) }),
        o(Op::CreateFile { path: s("e/newfile"), flags: libc::O_WRONLY | libc::O_EXCL, mode: 0o640 }),
        o(Op::CreateFile { path: s("d/precious"), flags: libc::O_RDWR | libc::O_TRUNC, mode: 0o600 }),
        o(Op::RemoveFile { path: s("l/precious") }),
        o(Op::RemoveDir { path: s("e/sub") }),
        // creations onto names that exist (the reference refuses with EEXIST)
        o(Op::Create { path: s("d/precious"), kind: CreateKind::File(0o644) }),
        o(Op::Create { path: s("l"), kind: CreateKind::File(0o644) }),
        o(Op::Create { path: s("e/sub"), kind: CreateKind::Dir(0o755) }),
        o(Op::Create { path: s("d/precious"), kind: CreateKind::Fifo(0o644) }),
        o(Op::Create { path: s("d/precious"), kind: CreateKind::Symlink(s("x")) }),
        o(Op::Create { path: s("d/precious"), kind: CreateKind::Hardlink(s("e/other")) }),
        o(Op::CreateFile { path: s("d/precious"), flags: libc::O_WRONLY | libc::O_EXCL, mode: 0o600 }),
        o(Op::Create { path: s("e/dangling"), kind: CreateKind::File(0o644) }),
        o(Op::Rename { src: s("d/src"), dst: s("e/dangling"), flags: 1 }),
        // flag bits the kernel does not know: EINVAL and nothing moves (never a plain rename)
        o(Op::Rename { src: s("d/src"), dst: s("d/precious"), flags: 8 }).c(),
        o(Op::Rename { src: s("d/src"), dst: s("d/precious"), flags: 0x11 }),
    ]
}

fn run_noreplace_race(u: &mut Universe, b: &Batch, idx: u64, st: &mut Stats) -> bool {
    let (src, dst, c_facade) = [("d/src", "e/dst", false), ("l/src", "e/sub/dst", false), ("d/src", "e/dst", true)][idx as usize % 3];
    let mk = |script: Vec<crate::sup::Dec>| {
        let mut c = Case::new("C14", "noreplace-race", b.uni.clone());
        c.world = Some(fault_world());
        let mut o = OpSpec::new(Op::Rename { src: src.into(), dst: dst.into(), flags: 1 });
        if c_facade {
            o = o.c();
        }
        c.jobs = vec![vec![o]];
        c.plan.script = script;
        c
    };
    let out0 = run_case(u, &mk(vec![]), &mut crate::sup::NoHooks, false);
    if let Some(e) = &out0.harness_error {
        st.harness_errors.push(format!("noreplace-race {idx}: {e}"));
        return false;
    }
    let wins: Vec<usize> = out0.trace.iter().filter(|e| e.lib && e.op == Some(0) && e.nr != crate::seam::HYPERCALL_NR && e.nr != libc::SYS_futex).map(|e| e.step).collect();
    let real_dst = format!("root/{}", dst.replace("l/", "d/"));
    for w in wins {
        let case = mk(vec![crate::sup::Dec { step: w, attack: vec![crate::world::Mutation::MkFile { path: real_dst.clone(), content: "PRECIOUS-CREATED-BY-ANOTHER-PROCESS".into() }], ..Default::default() }]);
        let out = run_case(u, &case, &mut crate::sup::NoHooks, false);
        if let Some(e) = &out.harness_error {
            st.harness_errors.push(format!("noreplace-race {idx}@{w}: {e}"));
            return false;
        }
        st.evaluations += 1;
        st.merge_runout(&out);
        st.nontrivial.insert(case.hash() ^ w as u64);
        st.count("noreplace_race.windows", 1);
        let created = out.attacks_applied.get("mkfile").copied().unwrap_or(0) > 0;
        let ok = out.records.first().map(|r| r.outcome.is_ok()).unwrap_or(false);
        st.count(if ok { "noreplace_race.rename_succeeded" } else { "noreplace_race.rename_failed" }, 1);
        if created && ok {
            // the other process's file existed before the rename was carried out (its creation would
            // have failed otherwise): a successful RENAME_NOREPLACE cannot have replaced it
            let w0 = crate::world::World { labels: Default::default(), dev: 0, root_ino: (0, 0), created_seq: 0 };
            let survived = sys::read_file(format!("/mnt/w/{real_dst}").as_bytes(), 64).map(|b| b.starts_with(b"PRECIOUS-CREATED")).unwrap_or(false);
            let _ = w0;
            if !survived {
                let v = mk_violation(&case, &out, "C14", "noreplace-replaced-a-concurrently-created-destination", "rename", format!("rename({src:?}, {dst:?}, RENAME_NOREPLACE) reported success although another process created the destination at step {w} of the call (its O_EXCL creation succeeded, so the destination existed before the rename was carried out); the file it created is gone"));
                st.violation(&v);
            }
        }
        if u.poisoned {
            return false;
        }
    }
    true
}

fn run_fault_enum(u: &mut Universe, b: &Batch, idx: u64, st: &mut Stats) -> bool {
    let op = fault_scenarios()[idx as usize].clone();
    let mk = |script: Vec<crate::sup::Dec>| {
        let mut c = Case::new("C14", "fault-enum", b.uni.clone());
        c.world = Some(fault_world());
        c.jobs = vec![vec![op.clone()]];
        c.plan.script = script;
        c
    };
    let out0 = run_case(u, &mk(vec![]), &mut crate::sup::NoHooks, false);
    if let Some(e) = &out0.harness_error {
        st.harness_errors.push(format!("fault-enum {idx}: {e}"));
        return false;
    }
    let sites: Vec<(usize, i64)> = out0.trace.iter().filter(|e| e.lib && e.op == Some(0) && e.nr != crate::seam::HYPERCALL_NR && e.nr != libc::SYS_futex).map(|e| (e.step, e.nr)).collect();
    for (step, nr) in sites {
        for f in crate::sup::fault_catalogue(nr) {
            let case = mk(vec![crate::sup::Dec { step, fault: Some(f), ..Default::default() }]);
            if !eval_case(u, &case, st, false) || u.poisoned {
                return false;
            }
            st.count("fault_enum.placements", 1);
        }
    }
    true
}

pub fn gen_faulted_case(seed: u64, idx: u64, uni: &UniCfg) -> Case {
    let mut c = gen_case(seed ^ 0xFA17, idx, uni);
    let mut rng = Rng::new(rng::derive(seed, "C14-faults", idx));
    c.phase = "faulted".into();
    c.plan = crate::sup::Plan { seeded: Some(crate::sup::Seeded { seed: rng.next(), p_switch: 0, p_attack: 0, p_fault: *rng.pick(&[30u64, 60, 120]), max_attacks: 0, pct_depth: 0 }), ..Default::default() };
    c
}

/// (parent string, final name) the way the statement defines it: split at the
/// last '/'. None = trailing slash / empty path.
pub fn split(path: &str) -> Option<(String, String)> {
    if path.is_empty() || path.ends_with('/') {
        return None;
    }
    match path.rfind('/') {
        None => Some((".".into(), path.into())),
        Some(0) => Some(("/".into(), path[1..].into())),
        Some(i) => Some((path[..i].into(), path[i + 1..].into())),
    }
}

fn parent_fd(rootfd: i32, parent: &str, nosym: bool) -> Result<i32, i32> {
    sys::openat2(rootfd, parent.as_bytes(), libc::O_PATH as u64, 0, sys::RESOLVE_IN_ROOT | sys::RESOLVE_NO_MAGICLINKS | if nosym { sys::RESOLVE_NO_SYMLINKS } else { 0 })
}

/// Reference outcome: Ok(Some(ino)) for create_file, Ok(None) otherwise, Err(errno).
pub fn reference(rootfd: i32, spec: &OpSpec) -> Result<Option<(u64, u64)>, i32> {
    let nosym = spec.no_symlinks;
    let c = spec.facade == Facade::C;
    match &spec.op {
        Op::Create { path, kind } => {
            // the C wrappers decode the mode word before anything else is looked at
            let (ftype_mode, dev): (Result<u32, i32>, u64) = match kind {
                CreateKind::File(m) => (Ok(libc::S_IFREG | (m & !libc::S_IFMT)), 0),
                CreateKind::Dir(m) => (Ok(libc::S_IFDIR | (m & !libc::S_IFMT)), 0),
                CreateKind::Fifo(m) => (Ok(libc::S_IFIFO | (m & !libc::S_IFMT)), 0),
                CreateKind::Chr(m, d) => (Ok(libc::S_IFCHR | (m & !libc::S_IFMT)), *d),
                CreateKind::Blk(m, d) => (Ok(libc::S_IFBLK | (m & !libc::S_IFMT)), *d),
                CreateKind::RawMknod(m, d) => {
                    let fmt = m & libc::S_IFMT;
                    match fmt {
                        libc::S_IFREG | libc::S_IFDIR | libc::S_IFBLK | libc::S_IFCHR | libc::S_IFIFO => (Ok(*m), *d),
                        libc::S_IFSOCK => (Err(libc::ENOSYS), 0),
                        _ => (Err(libc::EINVAL), 0),
                    }
                }
                CreateKind::Symlink(_) | CreateKind::Hardlink(_) => (Ok(0), 0),
            };
            let _ = c;
            let (parent, name) = match split(path) {
                Some(x) => x,
                None => {
                    // the parent is still resolved first
                    let p = if path.is_empty() { ".".to_string() } else { path.trim_end_matches('/').to_string() };
                    let p = if p.is_empty() { "/".to_string() } else { p };
                    if let CreateKind::RawMknod(..) = kind {
                        ftype_mode?;
                    }
                    let fd = parent_fd(rootfd, &p, nosym)?;
                    sys::close(fd);
                    return Err(libc::EINVAL);
                }
            };
            if let CreateKind::RawMknod(..) = kind {
                ftype_mode?;
            }
            let pfd = parent_fd(rootfd, &parent, nosym)?;
            let r = match kind {
                CreateKind::Symlink(t) => sys::symlinkat(t.as_bytes(), pfd, name.as_bytes()),
                CreateKind::Hardlink(t) => match split(t) {
                    None => {
                        let p = if t.is_empty() { ".".to_string() } else { t.trim_end_matches('/').to_string() };
                        let p = if p.is_empty() { "/".to_string() } else { p };
                        match parent_fd(rootfd, &p, nosym) {
                            Ok(fd) => {
                                sys::close(fd);
                                Err(libc::EINVAL)
                            }
                            Err(e) => Err(e),
                        }
                    }
                    Some((tp, tn)) => match parent_fd(rootfd, &tp, nosym) {
                        Ok(tfd) => {
                            let r = sys::linkat(tfd, tn.as_bytes(), pfd, name.as_bytes(), 0);
                            sys::close(tfd);
                            r
                        }
                        Err(e) => Err(e),
                    },
                },
                _ => {
                    let m = ftype_mode.unwrap_or(0);
                    if m & libc::S_IFMT == libc::S_IFDIR {
                        sys::mkdirat(pfd, name.as_bytes(), m & !libc::S_IFMT)
                    } else {
                        sys::mknodat(pfd, name.as_bytes(), m, dev)
                    }
                }
            };
            sys::close(pfd);
            r.map(|_| None)
        }
        Op::CreateFile { path, flags, mode } => {
            let (parent, name) = match split(path) {
                Some(x) => x,
                None => {
                    let p = if path.is_empty() { ".".to_string() } else { path.trim_end_matches('/').to_string() };
                    let p = if p.is_empty() { "/".to_string() } else { p };
                    let fd = parent_fd(rootfd, &p, nosym)?;
                    sys::close(fd);
                    return Err(libc::EINVAL);
                }
            };
            let pfd = parent_fd(rootfd, &parent, nosym)?;
            let r = sys::openat(pfd, name.as_bytes(), flags | libc::O_CREAT | libc::O_NOFOLLOW | libc::O_NOCTTY, mode & !libc::S_IFMT);
            sys::close(pfd);
            match r {
                Ok(fd) => {
                    let st = sys::fstat(fd);
                    sys::close(fd);
                    st.map(|s| Some((s.st_dev, s.st_ino)))
                }
                Err(e) => Err(e),
            }
        }
        Op::RemoveFile { path } | Op::RemoveDir { path } => {
            let (parent, name) = match split(path) {
                Some(x) => x,
                None => {
                    let p = if path.is_empty() { ".".to_string() } else { path.trim_end_matches('/').to_string() };
                    let p = if p.is_empty() { "/".to_string() } else { p };
                    let fd = parent_fd(rootfd, &p, nosym)?;
                    sys::close(fd);
                    return Err(libc::EINVAL);
                }
            };
            let pfd = parent_fd(rootfd, &parent, nosym)?;
            let fl = if matches!(spec.op, Op::RemoveDir { .. }) { libc::AT_REMOVEDIR } else { 0 };
            let r = sys::unlinkat(pfd, name.as_bytes(), fl);
            sys::close(pfd);
            r.map(|_| None)
        }
        Op::Rename { src, dst, flags } => {
            let half = |p: &str| -> Result<Result<(i32, String), i32>, i32> {
                match split(p) {
                    Some((parent, name)) => Ok(parent_fd(rootfd, &parent, nosym).map(|fd| (fd, name))),
                    None => {
                        let q = if p.is_empty() { ".".to_string() } else { p.trim_end_matches('/').to_string() };
                        let q = if q.is_empty() { "/".to_string() } else { q };
                        match parent_fd(rootfd, &q, nosym) {
                            Ok(fd) => {
                                sys::close(fd);
                                Err(libc::EINVAL)
                            }
                            Err(e) => Err(e),
                        }
                    }
                }
            };
            let (sfd, sname) = match half(src) {
                Ok(Ok(x)) => x,
                Ok(Err(e)) | Err(e) => return Err(e),
            };
            let (dfd, dname) = match half(dst) {
                Ok(Ok(x)) => x,
                Ok(Err(e)) | Err(e) => {
                    sys::close(sfd);
                    return Err(e);
                }
            };
            let r = sys::renameat2(sfd, sname.as_bytes(), dfd, dname.as_bytes(), *flags);
            sys::close(sfd);
            sys::close(dfd);
            r.map(|_| None)
        }
        _ => Ok(None),
    }
}

pub struct H {
    /// per op: (outcome class, errno, snapshot after, create_file identity ok)
    pub after: Vec<(usize, Vec<String>, Option<String>)>,
}

impl Hooks for H {
    fn end_op(&mut self, ctx: &mut RunCtx, rec: &mut OpRecord) {
        let mut ident = None;
        if let (Op::CreateFile { path, .. }, Outcome::Fd(_), Some(f)) = (&rec.spec.op, &rec.outcome, &rec.facts) {
            // the returned descriptor is the very file that now exists under that name
            let rootfd = crate::ops::slot(rec.spec.root);
            match kernel_lookup(rootfd, path, true, rec.spec.no_symlinks) {
                KRes::Obj { ino, .. } if ino == f.ino => {}
                other => ident = Some(format!("create_file({path:?}) returned {:?} but a no-follow lookup of the path gives {other:?}", f.path)),
            }
            if f.getfd & libc::FD_CLOEXEC == 0 {
                ident = Some("create_file descriptor is not close-on-exec".into());
            }
        }
        self.after.push((rec.idx, ctx.world.full_snapshot(""), ident));
    }
}

pub fn eval_case(u: &mut Universe, case: &Case, st: &mut Stats, sample: bool) -> bool {
    let mut tries = 0;
    let (out, h) = loop {
        let mut h = H { after: Vec::new() };
        let out = run_case(u, case, &mut h, false);
        if out.records.iter().any(|r| is_interference(&r.outcome)) && tries < 3 {
            tries += 1;
            st.count("interference_reruns", 1);
            continue;
        }
        break (out, h);
    };
    if let Some(e) = &out.harness_error {
        st.harness_errors.push(format!("twin A: {e}"));
        return false;
    }
    st.merge_runout(&out);
    // world B: identical spec, reference procedure with raw calls
    let spec = case.world.as_ref().unwrap();
    let wb = match World::build(spec) {
        Ok(w) => w,
        Err(e) => {
            st.harness_errors.push(format!("twin B build: {e}"));
            return false;
        }
    };
    let rootfd = match sys::open(crate::world::ROOT.as_bytes(), libc::O_PATH | libc::O_DIRECTORY, 0) {
        Ok(fd) => fd,
        Err(e) => {
            st.harness_errors.push(format!("twin B root: {e}"));
            return false;
        }
    };
    let old = unsafe { libc::umask(case.umask) };
    for (i, spec_i) in case.jobs[0].iter().enumerate() {
        let rec = match out.records.iter().find(|r| r.idx == i) {
            Some(r) => r,
            None => break,
        };
        let refr = reference(rootfd, spec_i);
        let snap_b = wb.full_snapshot("");
        let (_, snap_a, ident) = match h.after.iter().find(|(k, _, _)| *k == i) {
            Some(x) => x.clone(),
            None => break,
        };
        st.evaluations += 1;
        st.count(&format!("outcome.{}.{}", spec_i.name(), rec.outcome.class().split(':').take(3).collect::<Vec<_>>().join(":")), 1);
        let mut problems: Vec<(String, String)> = Vec::new();
        if rec.faults_inside > 0 {
            st.count(if rec.outcome.is_ok() { "faulted.op_succeeded_despite_fault" } else { "faulted.op_failed" }, 1);
            if !rec.outcome.is_ok() && !matches!(rec.outcome, Outcome::Panic(_)) {
                // a failing call under a fault is C10's subject; the twins are out of lockstep now
                break;
            }
        }
        let lib_errno = match &rec.outcome {
            Outcome::Err { errno, .. } => Some(*errno),
            Outcome::Panic(m) => {
                problems.push(("panic".into(), m.clone()));
                None
            }
            _ => None,
        };
        // A path with a trailing slash must be refused without effect. Which
        // error wins when the part before the slash(es) is itself not usable
        // (missing, not a directory) is not fixed by the statement: the
        // library resolves "x/" of "x//" first and may report ENOTDIR/ENOENT.
        let trailing = match &spec_i.op {
            Op::Create { path, kind } => split(path).is_none() || matches!(kind, CreateKind::Hardlink(t) if split(t).is_none()),
            Op::CreateFile { path, .. } | Op::RemoveFile { path } | Op::RemoveDir { path } => split(path).is_none(),
            Op::Rename { src, dst, .. } => split(src).is_none() || split(dst).is_none(),
            _ => false,
        };
        // (a walk through a loop of links with 4095-byte bodies nests more link levels than the
        // universe's RLIMIT_NOFILE of 256 allows before the link budget is used up: the harness's
        // own limit, not an outcome - see C04)
        if lib_errno == Some(libc::EMFILE) && rec.faults_inside == 0 && matches!(refr, Err(libc::ELOOP)) {
            st.count("skipped.descriptor_limit_of_the_universe", 1);
            break;
        }
        match (&refr, lib_errno, rec.outcome.is_ok()) {
            (Ok(_), None, true) => {}
            (Err(e), Some(le), _) if *e == le => {}
            (Err(_), Some(_), _) if trailing => {}
            (Err(e), Some(le), _) => problems.push(("errno-differs".into(), format!("{}: library {} vs reference {}", spec_i.name(), sys::errname(le), sys::errname(*e)))),
            (Err(e), None, true) => problems.push(("library-succeeds-reference-fails".into(), format!("{}: reference {}", spec_i.name(), sys::errname(*e)))),
            (Ok(_), Some(le), _) => problems.push(("library-fails-reference-succeeds".into(), format!("{}: library {} ({:?})", spec_i.name(), sys::errname(le), rec.outcome))),
            _ => {}
        }
        if snap_a != snap_b {
            problems.push(("tree-differs".into(), format!("{}: after the call the trees differ: {}", spec_i.name(), crate::sup::diff_snap(&snap_b, &snap_a))));
        }
        if let Some(d) = ident {
            problems.push(("create-file-identity".into(), d));
        }
        let changed = i == 0 && snap_a.len() != spec.entries.len() || rec.outcome.is_ok();
        if changed {
            let mut hh = case.hash();
            sys::fnv(&mut hh, &[i as u8]);
            st.nontrivial.insert(hh);
        }
        if !problems.is_empty() {
            // documented divergences are named narrowly
            let links = out.trace.iter().filter(|e| e.step >= rec.begin_step && e.step <= rec.end_step && e.nr == libc::SYS_readlinkat).count();
            let mut c1 = case.clone();
            if case.phase != "replay" {
                c1.jobs = vec![case.jobs[0][..=i].to_vec()];
            }
            for (clause, detail) in problems {
                match eloop_triage(&clause, &detail, !case.uni.no_openat2, links) {
                    Some(clause) => {
                        let v = mk_violation(&c1, &out, "C14", &clause, spec_i.name(), detail);
                        st.violation(&v);
                    }
                    None => st.count("probe.kernel_eloop_disagrees_with_itself", 1),
                }
            }
            break; // the twins are out of lockstep from here on
        }
    }
    unsafe { libc::umask(old) };
    sys::close(rootfd);
    if sample {
        st.sample(json!({"universe": case.uni.tag(), "world_entries": spec.entries.len(), "ops": case.jobs[0].iter().map(|o| o.to_json()).collect::<Vec<_>>(), "outcomes": out.records.iter().map(|r| r.outcome.class()).collect::<Vec<_>>()}));
    }
    true
}

pub fn run(u: &mut Universe, b: &Batch, st: &mut Stats) {
    if let Err(e) = warm_up(u) {
        st.harness_errors.push(format!("warm-up: {e}"));
        return;
    }
    for idx in b.lo..b.hi {
        coord::progress(idx);
        let case = if b.phase == "replay" {
            match Case::from_json(&b.extra["case"]) {
                Some(c) => c,
                None => return,
            }
        } else if b.phase == "noreplace-race" {
            if !run_noreplace_race(u, b, idx, st) {
                return;
            }
            continue;
        } else if b.phase == "fault-enum" {
            if !run_fault_enum(u, b, idx, st) {
                return;
            }
            continue;
        } else if b.phase == "faulted" {
            gen_faulted_case(b.seed, idx, &b.uni)
        } else {
            gen_case(b.seed, idx, &b.uni)
        };
        if !eval_case(u, &case, st, idx == b.lo) {
            return;
        }
        if u.poisoned {
            return;
        }
    }
}

pub fn finalise(tier: &str, seed: u64, res: coord::CheckResult) -> i32 {
    coord::finalise(
        "C14",
        tier,
        seed,
        "exploration",
        "one evaluation = one single-entry operation (create of every inode kind, create_file, remove_file, remove_dir, rename with flags; Rust or C facade; decorated paths incl. trailing slash, final '.'/'..', through symlinks) executed by libpathrs on world A and by the reference procedure (split at the last '/', raw openat2(RESOLVE_IN_ROOT) of the parent, one raw *at call on the final name) on an identical world B; outcome errno and whole-world snapshots are compared after every operation; faulted phase: the same twins with seeded transient faults (3-12 % of the library's system calls, errnos from the per-call catalogue incl. ENOSYS/EINVAL for renameat2) - (and, for 23 canonical operations - rename with every flag, every create kind, create_file, remove_* - every (system call, errno of its catalogue) placement is enumerated) an operation that reports success although a call inside it failed must still have exactly the reference outcome and tree (an operation that fails under the fault ends the run: that is C10's subject); non-trivial = the operation succeeded (changed the tree); distinct = hash of (case, op index)",
        res,
        Map::new(),
        vec!["umask 022 in both worlds".into(), "the C wrappers' documented decoding of mknod mode words is part of the reference".into()],
        false,
        &|b, run| if b.phase == "faulted" { Some(gen_faulted_case(b.seed, run, &b.uni)) } else { Some(gen_case(b.seed, run, &b.uni)) },
    )
    .exit_code
}
