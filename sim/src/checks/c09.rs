//! C09 - reopen yields the same inode for any descriptor number and /proc state.
use super::*;
use crate::case::{mk_violation, Case};
use crate::coord::{self, Batch, Stats};
use crate::ops::{Facade, Op, OpSpec, Outcome};
use crate::rng::{self, Rng};
use crate::sup::{Hooks, MountApi, OpRecord, RunCtx, RunOut};
use crate::world::{Entry, Kind, Mutation, WorldSpec};
use serde_json::{json, Map, Value};

pub const PER_BATCH: u64 = 300;

pub fn plan(tier: &str, seed: u64) -> Vec<Batch> {
    let n = match tier {
        "thorough" => 300,
        "dev" => 1,
        _ => 30,
    };
    let mut v = Vec::new();
    let mut unis = vec![UniCfg::k(), UniCfg::e()];
    for ma in [MountApi::Eperm, MountApi::NoFsopen] {
        let mut u = UniCfg::k();
        u.mount_api = ma;
        unis.push(u.clone());
        u.no_openat2 = true;
        unis.push(u);
    }
    // reopening a descriptor that is itself the result of a reopen (not O_PATH): still a *new* open
    // file description (own file offset)
    for uni in [UniCfg::k(), UniCfg::e()] {
        v.push(Batch { check: "C09".into(), phase: "ofd".into(), uni, seed, lo: 0, hi: ofd_cases().len() as u64, fresh: false, tier: tier.into(), extra: Value::Null });
    }
    // a crafted directory (same-named links to a foreign file) or another process's fd directory
    // mounted on the caller thread's own fd directory (/proc/<pid>/task/<tid>/fd), before the reopen
    // and at every window of it (the kernel refuses mounts on the fd/<n> magic-links themselves)
    // ... also on a kernel without openat2, without the new mount API and without statx mount ids
    // (before 5.6 / 5.2 / 5.8): only the filesystem-type check is left there
    let mut old_kernel = UniCfg::e();
    old_kernel.mount_api = MountApi::Enosys;
    old_kernel.statx_mntid = false;
    for uni in unis.iter().chain(std::iter::once(&old_kernel)) {
        let n = fd_mount_cases().len() as u64;
        let mut lo = 0;
        while lo < n {
            v.push(Batch { check: "C09".into(), phase: "fd-mount".into(), uni: uni.clone(), seed, lo: lo * FDM_W, hi: (lo + 4).min(n) * FDM_W, fresh: false, tier: tier.into(), extra: Value::Null });
            lo += 4;
        }
    }
    // the handle's file renamed to (or unlinked at) a path whose /proc/<pid>/fd/<n> text is exactly
    // 4093..4095 bytes long - the longest a link body can be
    for uni in unis.iter() {
        v.push(Batch { check: "C09".into(), phase: "deep".into(), uni: uni.clone(), seed, lo: 0, hi: deep_cases().len() as u64, fresh: false, tier: tier.into(), extra: Value::Null });
    }
    // callers with a private descriptor table (unshare(CLONE_FILES)): one universe each,
    // never reused (the caller thread keeps its private table)
    for uni in unis.iter() {
        v.push(Batch { check: "C09".into(), phase: "private-table".into(), uni: uni.clone(), seed, lo: 0, hi: private_cases().len() as u64, fresh: false, tier: tier.into(), extra: Value::Null });
    }
    for (ui, uni) in unis.into_iter().enumerate() {
        let nb = if ui < 2 { n } else { (n / 2).max(1) };
        for i in 0..nb {
            v.push(Batch { check: "C09".into(), phase: "history".into(), uni: uni.clone(), seed, lo: i * PER_BATCH, hi: (i + 1) * PER_BATCH, fresh: false, tier: tier.into(), extra: Value::Null });
        }
    }
    v
}

/// (target, flags of the first reopen, flags of the second reopen, C facade)
pub fn ofd_cases() -> Vec<(&'static str, i32, i32, bool)> {
    let mut v = Vec::new();
    for c in [false, true] {
        for (t, f1, f2) in [
            ("dir/file", libc::O_RDONLY, libc::O_RDONLY),
            ("dir/file", libc::O_RDWR, libc::O_RDWR),
            ("dir/file", libc::O_RDONLY | libc::O_NONBLOCK, libc::O_RDONLY | libc::O_NONBLOCK),
            ("dir/file", libc::O_RDWR, libc::O_RDONLY),
            ("dir/file", libc::O_WRONLY | libc::O_APPEND, libc::O_WRONLY | libc::O_APPEND),
            ("dir/sub", libc::O_RDONLY | libc::O_DIRECTORY, libc::O_RDONLY | libc::O_DIRECTORY),
            ("dir/sub", libc::O_RDONLY, libc::O_RDONLY),
        ] {
            v.push((t, f1, f2, c));
        }
    }
    v
}

/// fd-mount phase: (target, renumber to, flags, C facade, mounted directory)
pub const FDM_W: u64 = 64;
pub fn fd_mount_cases() -> Vec<(&'static str, i32, i32, bool, &'static str)> {
    let mut v = Vec::new();
    for (t, fl) in [("dir/file", libc::O_RDONLY), ("dir/file", libc::O_RDWR), ("dir/file", libc::O_PATH), ("dir/sub", libc::O_RDONLY | libc::O_DIRECTORY), ("dir/sub", libc::O_PATH)] {
        for (newfd, c, src) in [(-1, false, "/mnt/w/outside/fakefd"), (63, true, "/mnt/w/outside/fakefd"), (63, false, "/proc/1/fd"), (-1, true, "/proc/1/fd"), (63, false, "/mnt/w/outside/fakefd")] {
            v.push((t, newfd, fl, c, src));
        }
    }
    v
}

const FD_DIR: &str = "/proc/self/task/@W0/fd";

/// the history world plus a directory of links named like descriptor numbers
fn fd_mount_world() -> WorldSpec {
    let mut w = world();
    for n in (3..=12).chain([63]) {
        w.push(Entry::link(&format!("outside/fakefd/{n}"), "/mnt/w/outside/secret"));
    }
    w
}

/// window 0 = the mount is placed before the reopen starts; window k>0 = at the k-th system call of it
fn run_fd_mount(u: &mut Universe, b: &Batch, idx: u64, st: &mut Stats) -> bool {
    let replay = b.phase == "replay";
    let (ci, window) = ((idx / FDM_W) as usize, (idx % FDM_W) as usize);
    let cases = fd_mount_cases();
    let (target, newfd, flags, cfac, src) = cases[ci % cases.len()];
    let facade = if cfac { Facade::C } else { Facade::Rust };
    let mount = Mutation::MountOn { src: src.into(), dst: FD_DIR.into(), nofollow: false };
    let mk = |statically: bool, script: Vec<crate::sup::Dec>| {
        let mut c = Case::new("C09", "fd-mount", b.uni.clone());
        let mut ops = vec![OpSpec::new(Op::Resolve { path: target.into(), nofollow: false }).store(1).facade(facade)];
        let mut sup = Vec::new();
        if newfd >= 0 {
            sup.push(Mutation::Dup3Slot { slot: 1, newfd });
        }
        if statically {
            sup.push(mount.clone());
        }
        if !sup.is_empty() {
            ops.push(OpSpec::new(Op::Sup { muts: sup }));
        }
        ops.push(OpSpec::new(Op::Reopen { slot: 1, flags }).facade(facade));
        ops.push(OpSpec::new(Op::Sup { muts: vec![Mutation::Umount { path: FD_DIR.into() }] }));
        c.world = Some(fd_mount_world());
        c.jobs = vec![ops];
        c.plan.script = script;
        c.extra = json!({"target": target, "symlink_handle": false, "flags": flags, "newfd": newfd, "history": false, "overmount": true, "attacker_inside_reopen": !statically});
        c
    };
    let case = if replay {
        match Case::from_json(&b.extra["case"]) {
            Some(c) => c,
            None => return false,
        }
    } else if window == 0 {
        mk(true, vec![])
    } else {
        // windows of the reopen in a run without the mount
        let probe = mk(false, vec![]);
        let ridx = probe.jobs[0].iter().position(|o| matches!(o.op, Op::Reopen { .. })).unwrap_or(usize::MAX);
        let mut h0 = H { handle: None, handle_fl: 0, target: target.into(), seq: 0, reopen_idx: usize::MAX };
        let out0 = run_case(u, &probe, &mut h0, false);
        if out0.harness_error.is_some() || u.poisoned {
            return !u.poisoned;
        }
        let wins: Vec<usize> = out0.trace.iter().filter(|e| e.lib && e.op == Some(ridx) && e.nr != crate::seam::HYPERCALL_NR && e.nr != libc::SYS_futex).map(|e| e.step).collect();
        if window == 1 {
            st.count("fd_mount.windows_total", wins.len() as u64);
        }
        match wins.get(window - 1) {
            Some(w) => mk(false, vec![crate::sup::Dec { step: *w, attack: vec![mount.clone()], ..Default::default() }]),
            None => return true,
        }
    };
    let base_mounts = super::c06::mount_ids();
    let base_case = baseline_of(&case);
    let mut hb = H { handle: None, handle_fl: 0, target: target.into(), seq: 0, reopen_idx: usize::MAX };
    let outb = run_case(u, &base_case, &mut hb, false);
    if outb.harness_error.is_some() || u.poisoned {
        return !u.poisoned;
    }
    let base = outb.records.iter().find(|r| matches!(r.spec.op, Op::Reopen { .. })).map(|r| r.outcome.clone());
    let mut h = H { handle: None, handle_fl: 0, target: target.into(), seq: 0, reopen_idx: usize::MAX };
    let out = run_case(u, &case, &mut h, false);
    if super::c06::mount_ids() != base_mounts {
        u.poisoned = true;
        st.count("fd_mount.universe_abandoned", 1);
    }
    if let Some(e) = &out.harness_error {
        st.harness_errors.push(format!("fd-mount {idx}: {e}"));
        return false;
    }
    st.evaluations += 1;
    st.merge_runout(&out);
    st.count("fd_mount.runs", 1);
    let placed = out.attacks_applied.get("mount_bind_on").copied().unwrap_or(0) > 0;
    if placed {
        st.count("fd_mount.mount_took_effect", 1);
        st.nontrivial.insert(case.hash());
    }
    if let Some(r) = out.records.iter().find(|r| matches!(r.spec.op, Op::Reopen { .. })) {
        st.count(&format!("fd_mount.outcome.{}", r.outcome.class().split(':').take(3).collect::<Vec<_>>().join(":")), 1);
    }
    for (clause, detail) in judge(&case, &out, &h, base.as_ref()) {
        let v = mk_violation(&case, &out, "C09", &refine(&clause, &case), "reopen", detail);
        st.violation(&v);
    }
    !u.poisoned
}

struct Ofd {
    shared: Option<String>,
}
impl Hooks for Ofd {
    fn end_op(&mut self, _ctx: &mut RunCtx, rec: &mut OpRecord) {
        // after the second reopen: move the new descriptor's offset, the old one's must stay
        if rec.idx == 2 {
            if let Outcome::Fd(newfd) = rec.outcome {
                let old = crate::ops::slot(2);
                if old >= 0 && old != newfd {
                    unsafe {
                        let before = libc::lseek(old, 0, libc::SEEK_CUR);
                        let moved = libc::lseek(newfd, 3, libc::SEEK_SET);
                        let after = libc::lseek(old, 0, libc::SEEK_CUR);
                        if moved == 3 && before == 0 && after != 0 {
                            self.shared = Some(format!("moving the file offset of the reopened descriptor {newfd} moved the offset of the descriptor it was reopened from ({old}): {before} -> {after}"));
                        }
                        libc::lseek(newfd, 0, libc::SEEK_SET);
                    }
                }
            }
        }
    }
}

fn run_ofd(u: &mut Universe, b: &Batch, idx: u64, st: &mut Stats) -> bool {
    let (target, f1, f2, c) = ofd_cases()[idx as usize % ofd_cases().len()];
    let mut case = Case::new("C09", "ofd", b.uni.clone());
    case.world = Some(world());
    let mut ops = vec![
        OpSpec::new(Op::Resolve { path: target.into(), nofollow: false }).store(1),
        OpSpec::new(Op::Reopen { slot: 1, flags: f1 }).store(2),
        OpSpec::new(Op::Reopen { slot: 2, flags: f2 }),
    ];
    if c {
        ops = ops.into_iter().map(|o| o.c()).collect();
    }
    case.jobs = vec![ops];
    case.extra = json!({"flags": f2, "target": target});
    let mut h = Ofd { shared: None };
    let out = run_case(u, &case, &mut h, false);
    if let Some(e) = &out.harness_error {
        st.harness_errors.push(format!("ofd {idx}: {e}"));
        return false;
    }
    st.evaluations += 1;
    st.merge_runout(&out);
    st.nontrivial.insert(case.hash());
    if let Some(r) = out.records.iter().find(|r| r.idx == 2) {
        st.count(&format!("ofd.outcome.{}", r.outcome.class().split(':').take(3).collect::<Vec<_>>().join(":")), 1);
        if let (Outcome::Fd(_), Some(f), Some(r1)) = (&r.outcome, &r.facts, out.records.iter().find(|r| r.idx == 1)) {
            if let Some(f1facts) = &r1.facts {
                if f.ino != f1facts.ino {
                    let v = mk_violation(&case, &out, "C09", "different-inode", "reopen", format!("reopen of a reopened descriptor returned {:?}, the descriptor refers to {:?}", f.ino, f1facts.ino));
                    st.violation(&v);
                }
            }
        }
    }
    if let Some(d) = h.shared {
        let v = mk_violation(&case, &out, "C09", "not-a-new-description:shared-file-offset", "reopen", d);
        st.violation(&v);
    }
    !u.poisoned
}

/// (path, flags, decoy planted in the leader's table, C facade)
pub fn private_cases() -> Vec<(String, i32, bool, bool)> {
    let mut v = Vec::new();
    for (path, flagsets) in [
        ("dir/file", vec![libc::O_RDONLY, libc::O_RDWR, libc::O_WRONLY | libc::O_APPEND, libc::O_PATH]),
        ("dir/sub", vec![libc::O_RDONLY, libc::O_RDONLY | libc::O_DIRECTORY, libc::O_PATH]),
        ("dir/null", vec![libc::O_RDWR]),
        ("dir/fifo", vec![libc::O_RDONLY | libc::O_NONBLOCK, libc::O_PATH]),
    ] {
        for fl in flagsets {
            for plant in [true, false] {
                for c in [false, true] {
                    v.push((path.to_string(), fl, plant, c));
                }
            }
        }
    }
    v
}

fn run_private(u: &mut Universe, b: &Batch, idx: u64, st: &mut Stats) -> bool {
    let (path, flags, plant, c) = match b.extra["case"].as_object().and(Case::from_json(&b.extra["case"])) {
        Some(case) => match &case.jobs[0][0].op {
            Op::ReopenPrivateTable { path, flags, plant } => (path.clone(), *flags, *plant, case.jobs[0][0].facade == Facade::C),
            _ => return false,
        },
        None => private_cases()[idx as usize].clone(),
    };
    let mut case = Case::new("C09", "private-table", b.uni.clone());
    case.world = Some(world());
    let mut o = OpSpec::new(Op::ReopenPrivateTable { path: path.clone(), flags, plant });
    if c {
        o = o.c();
    }
    case.jobs = vec![vec![o]];
    case.extra = json!({"flags": flags, "target": path});
    let mut h = crate::sup::NoHooks;
    let out = run_case(u, &case, &mut h, false);
    u.poisoned = true; // the caller keeps its private table: the batch loop below continues anyway, nothing else runs here
    if let Some(e) = &out.harness_error {
        st.harness_errors.push(format!("private-table {idx}: {e}"));
        return false;
    }
    st.evaluations += 1;
    st.merge_runout(&out);
    st.nontrivial.insert(case.hash());
    let rec = match out.records.first() {
        Some(r) => r,
        None => return false,
    };
    st.count(&format!("private.outcome.{}", rec.outcome.class()), 1);
    let found = match &rec.outcome {
        Outcome::Harness(0) => None,
        Outcome::Harness(1) => Some(("different-inode:private-descriptor-table", format!("a caller thread with a private descriptor table reopened its descriptor for {path:?} with {flags:#o} and got a different inode (decoy at the same number in the thread-group leader's table: {plant})"))),
        Outcome::Harness(-2) => {
            st.harness_errors.push(format!("private-table {idx}: set-up failed"));
            return false;
        }
        Outcome::Err { errno, kind, desc } if !is_interference(&rec.outcome) => Some((
            "fails:private-descriptor-table",
            format!("a caller thread with a private descriptor table cannot reopen its descriptor for {path:?} with {flags:#o}: {} ({kind}) {desc} (decoy planted: {plant})", sys::errname(*errno)),
        )),
        Outcome::Panic(m) => Some(("panic", m.clone())),
        _ => None,
    };
    if let Some((clause, detail)) = found {
        let v = mk_violation(&case, &out, "C09", clause, "reopen", detail);
        st.violation(&v);
    }
    // the same scenario with one fault of the catalogue at every system call of the reopen: it may
    // fail, but what it returns still comes from the calling thread's own descriptor table
    if plant && b.phase != "replay" {
        let sites: Vec<(usize, i64)> = out.trace.iter().filter(|e| e.lib && e.nr != crate::seam::HYPERCALL_NR && e.nr != libc::SYS_futex).map(|e| (e.step, e.nr)).collect();
        for (step, nr) in sites {
            // (only plain errnos: the other fault kinds are executed by the supervisor on the caller's
            // behalf, which presupposes the shared descriptor table this phase does without)
            for f in crate::sup::fault_catalogue(nr).into_iter().filter(|f| matches!(f, crate::sup::Fault::Errno(_))) {
                let mut fc = case.clone();
                fc.plan.script = vec![crate::sup::Dec { step, fault: Some(f), ..Default::default() }];
                let fout = run_case(u, &fc, &mut crate::sup::NoHooks, false);
                if fout.harness_error.is_some() {
                    continue;
                }
                st.evaluations += 1;
                st.merge_runout(&fout);
                st.count("private.fault_placements", 1);
                if let Some(r) = fout.records.first() {
                    let bad = match &r.outcome {
                        Outcome::Harness(1) => Some(("different-inode:private-descriptor-table", format!("with one injected fault at step {step} a caller thread with a private descriptor table reopened its descriptor for {path:?} ({flags:#o}) and got a different inode"))),
                        Outcome::Panic(m) => Some(("panic", m.clone())),
                        _ => None,
                    };
                    if let Some((clause, detail)) = bad {
                        let v = mk_violation(&fc, &fout, "C09", clause, "reopen", detail);
                        st.violation(&v);
                    }
                }
            }
        }
    }
    true
}

pub fn world() -> WorldSpec {
    let mut w = WorldSpec::default();
    w.push(Entry::dir("root/dir/sub"));
    w.push(Entry::file("root/dir/file", "FILE-CONTENT"));
    w.push(Entry::file("root/dir/other", "OTHER-CONTENT"));
    w.push(Entry::dir("root/dir/otherdir"));
    w.push(Entry::fifo("root/dir/fifo"));
    w.push(Entry::link("root/dir/link", "file"));
    w.push(Entry::new("root/dir/null", Kind::Chr(1, 3)).mode(0o666));
    w.push(Entry::dir("outside/landing"));
    w.push(Entry::file("outside/secret", "OUTSIDE-SECRET"));
    w
}

const TARGETS: [(&str, bool); 6] = [("dir/file", false), ("dir/sub", false), ("dir/fifo", false), ("dir/link", true), ("dir/null", false), ("dir", false)];

pub fn gen_flags(rng: &mut Rng) -> i32 {
    let mut f = *rng.pick(&[libc::O_RDONLY, libc::O_RDONLY, libc::O_WRONLY, libc::O_RDWR, libc::O_PATH]) | libc::O_NONBLOCK;
    for (bit, pm) in [
        (libc::O_APPEND, 150u64),
        (libc::O_DIRECTORY, 200),
        (libc::O_NOFOLLOW, 200),
        (libc::O_CLOEXEC, 300),
        (libc::O_TRUNC, 60),
        (libc::O_NOATIME, 60),
        (libc::O_CREAT, 80),
        (libc::O_EXCL, 50),
        (libc::O_TMPFILE, 40),
        (0o20000000, 25),
        (libc::O_NOCTTY, 100),
    ] {
        if rng.chance(pm, 1000) {
            f |= bit;
        }
    }
    f
}

fn history(rng: &mut Rng, target: &str, seq: u64) -> Vec<Mutation> {
    let t = format!("root/{target}");
    let n = rng.below(4);
    let mut v = Vec::new();
    let mut cur = t.clone();
    for i in 0..n {
        match rng.below(7) {
            0 => {
                let dst = format!("root/dir/renamed{seq}-{i}");
                v.push(Mutation::Rename { src: cur.clone(), dst: dst.clone() });
                cur = dst;
            }
            1 => {
                // replace by a same-named different inode of the same type
                let away = format!("outside/landing/away{seq}-{i}");
                v.push(Mutation::Rename { src: cur.clone(), dst: away });
                v.push(Mutation::MkFile { path: t.clone(), content: "REPLACEMENT".into() });
            }
            2 => {
                let away = format!("outside/landing/away{seq}-{i}");
                v.push(Mutation::Rename { src: cur.clone(), dst: away });
                v.push(Mutation::Mkdir { path: t.clone() });
            }
            3 => {
                let away = format!("outside/landing/away{seq}-{i}");
                v.push(Mutation::Rename { src: cur.clone(), dst: away });
                v.push(Mutation::Symlink { path: t.clone(), target: "/mnt/w/outside/secret".into() });
            }
            4 => v.push(Mutation::Unlink { path: cur.clone() }),
            5 => v.push(Mutation::Rmdir { path: cur.clone() }),
            _ => v.push(Mutation::Rename { src: "root/dir".into(), dst: format!("root/dir-moved{seq}") }),
        }
    }
    v
}

/// (length of the absolute path after the rename, unlink afterwards?, flags, C facade)
pub fn deep_cases() -> Vec<(usize, bool, i32, bool)> {
    let mut v = Vec::new();
    for (len, unlink) in [(4095usize, false), (4094, false), (4093, false), (4085, true), (4084, true), (4086, true), (2000, false)] {
        for (fl, cf) in [(libc::O_RDONLY, false), (libc::O_PATH, true), (libc::O_RDWR, false)] {
            v.push((len, unlink, fl, cf));
        }
    }
    v
}

/// 15 nested directories with 255-byte names below the root: "/mnt/w/root/" + 15 * 256 = 3852 bytes
fn deep_dir() -> String {
    let mut p = String::from("root");
    for _ in 0..15 {
        p.push('/');
        p.push_str(&"D".repeat(255));
    }
    p
}

pub fn deep_case(uni: &UniCfg, idx: u64) -> Case {
    let (len, unlink, flags, cfac) = deep_cases()[idx as usize % deep_cases().len()];
    let facade = if cfac { Facade::C } else { Facade::Rust };
    let mut w = world();
    w.push(Entry::dir(&deep_dir()));
    // absolute path = "/mnt/w/" + deep_dir + "/" + name
    let used = "/mnt/w/".len() + deep_dir().len() + 1;
    let dst = if len > used { format!("{}/{}", deep_dir(), "f".repeat(len - used)) } else { format!("root/dir/{}", "f".repeat(len - "/mnt/w/root/dir/".len())) };
    let mut muts = vec![Mutation::Rename { src: "root/dir/file".into(), dst: dst.clone() }];
    if unlink {
        muts.push(Mutation::Unlink { path: dst });
    }
    let mut c = Case::new("C09", "deep", uni.clone());
    c.world = Some(w);
    c.jobs = vec![vec![OpSpec::new(Op::Resolve { path: "dir/file".into(), nofollow: false }).store(1).facade(facade), OpSpec::new(Op::Sup { muts }), OpSpec::new(Op::Reopen { slot: 1, flags }).facade(facade)]];
    c.extra = json!({"target": "dir/file", "symlink_handle": false, "flags": flags, "newfd": -1, "history": true, "overmount": false, "attacker_inside_reopen": false, "path_length_after_rename": len, "unlinked": unlink});
    c
}

fn overmounts(rng: &mut Rng) -> Vec<Mutation> {
    match rng.below(6) {
        0 => vec![Mutation::MountTmpfs { path: "/proc".into() }],
        1 => vec![Mutation::MountTmpfs { path: "/proc/self/fd".into() }],
        2 => vec![Mutation::MountBind { src: "/mnt/w/outside".into(), dst: "/proc/thread-self".into() }],
        3 => vec![Mutation::MountBind { src: "/mnt/w/outside".into(), dst: "/proc/self/task".into() }],
        4 => vec![Mutation::MountTmpfs { path: "/proc/self".into() }],
        _ => vec![],
    }
}

pub fn gen_case(seed: u64, idx: u64, uni: &UniCfg) -> Case {
    let mut rng = Rng::new(rng::derive(seed, "C09", idx));
    let mut c = Case::new("C09", "history", uni.clone());
    let (target, is_link) = *rng.pick(&TARGETS);
    let flags = gen_flags(&mut rng);
    let facade = if rng.chance(1, 3) { Facade::C } else { Facade::Rust };
    let mut ops = vec![OpSpec::new(Op::Resolve { path: target.into(), nofollow: is_link }).store(1).facade(facade)];
    let mut sup: Vec<Mutation> = Vec::new();
    let with_history = rng.chance(2, 3);
    if with_history {
        sup.extend(history(&mut rng, target, idx));
    }
    let newfd = *rng.pick(&[-1i32, -1, 0, 1, 2, 3, 5, 63, 150, 199]);
    if newfd >= 0 {
        sup.push(Mutation::Dup3Slot { slot: 1, newfd });
    }
    let mounts = if rng.chance(1, 3) { overmounts(&mut rng) } else { vec![] };
    sup.extend(mounts.iter().cloned());
    if !sup.is_empty() {
        ops.push(OpSpec::new(Op::Sup { muts: sup.clone() }));
    }
    ops.push(OpSpec::new(Op::Reopen { slot: 1, flags }).facade(facade));
    // undo the mounts (harness hygiene)
    let undo: Vec<Mutation> = mounts
        .iter()
        .rev()
        .filter_map(|m| match m {
            Mutation::MountTmpfs { path } => Some(Mutation::Umount { path: path.clone() }),
            Mutation::MountBind { dst, .. } => Some(Mutation::Umount { path: dst.clone() }),
            _ => None,
        })
        .collect();
    if !undo.is_empty() {
        ops.push(OpSpec::new(Op::Sup { muts: undo }));
    }
    c.world = Some(world());
    c.jobs = vec![ops];
    // one third of the histories also let the attacker act at the system-call
    // boundaries inside the reopen itself
    let inside = rng.chance(1, 3);
    if inside {
        c.plan = crate::sup::Plan {
            seeded: Some(crate::sup::Seeded { seed: rng.next(), p_switch: 0, p_attack: *rng.pick(&[100u64, 300, 600]), p_fault: 0, max_attacks: 3, pct_depth: 0 }),
            ..Default::default()
        };
    }
    c.extra = json!({"target": target, "symlink_handle": is_link, "flags": flags, "newfd": newfd, "history": with_history, "overmount": !mounts.is_empty(), "attacker_inside_reopen": inside});
    c
}

pub struct H {
    pub handle: Option<crate::sup::FdFacts>,
    pub handle_fl: i32,
    pub target: String,
    pub seq: u64,
    pub reopen_idx: usize,
}
impl Hooks for H {
    /// attacker windows *inside* the reopen call: the same repertoire as the history
    fn attack(&mut self, rng: &mut crate::rng::Rng, _w: &crate::world::World, ev: &crate::sup::Ev) -> Vec<Mutation> {
        if ev.op != Some(self.reopen_idx) {
            return Vec::new(); // only inside the reopen: the handle itself is resolved undisturbed
        }
        self.seq += 1;
        let mut v = history(rng, &self.target, 1000 + self.seq);
        v.truncate(2);
        v
    }
    fn end_op(&mut self, _ctx: &mut RunCtx, rec: &mut OpRecord) {
        if let (Op::Resolve { .. }, Some(f)) = (&rec.spec.op, &rec.facts) {
            self.handle = Some(f.clone());
            self.handle_fl = f.getfl;
        }
    }
}

/// baseline: same handle type and flags, no history / renumbering / mounts
pub fn baseline_of(case: &Case) -> Case {
    let mut b = case.clone();
    b.jobs[0].retain(|o| !matches!(o.op, Op::Sup { .. }));
    b.plan = crate::sup::Plan::default();
    b
}

pub fn judge(case: &Case, out: &RunOut, h: &H, base: Option<&Outcome>) -> Vec<(String, String)> {
    let mut v = Vec::new();
    let rec = match out.records.iter().find(|r| matches!(r.spec.op, Op::Reopen { .. })) {
        Some(r) => r,
        None => return v,
    };
    let flags = case.extra["flags"].as_i64().unwrap_or(0) as i32;
    let is_link = case.extra["symlink_handle"].as_bool().unwrap_or(false);
    // (the raw __O_TMPFILE bit alone is not O_TMPFILE: the kernel rejects it, or ignores it under O_PATH;
    // the generator produces it and the inode comparison covers it)
    let creation = flags & (libc::O_CREAT | libc::O_EXCL) != 0 || flags & libc::O_TMPFILE == libc::O_TMPFILE;
    let private_procfs = case.uni.mount_api == MountApi::Ok;
    let overmount = case.extra["overmount"].as_bool().unwrap_or(false);
    let handle = match &h.handle {
        Some(x) => x,
        None => return v, // resolve failed: nothing to reopen
    };
    match &rec.outcome {
        Outcome::Fd(_) => {
            let f = match &rec.facts {
                Some(f) => f,
                None => return v,
            };
            if f.ino != handle.ino {
                v.push(("different-inode".into(), format!("reopen returned {} (ino {:?}) but the handle refers to {:?} (ino {:?})", f.path, f.ino, handle.label, handle.ino)));
            }
            if is_link {
                v.push(("symlink-handle-reopened".into(), format!("reopen of a symlink handle returned {}", f.path)));
            }
            if creation {
                v.push(("creation-flags-accepted".into(), format!("reopen with flags {flags:#o} (creation flags) succeeded")));
            }
            if f.getfd & libc::FD_CLOEXEC == 0 {
                v.push(("not-cloexec".into(), "reopened descriptor is not close-on-exec".into()));
            }
            if flags & libc::O_PATH == 0 {
                if f.getfl & libc::O_ACCMODE != flags & libc::O_ACCMODE {
                    v.push(("wrong-access-mode".into(), format!("requested {:#o}, got F_GETFL {:#o}", flags & libc::O_ACCMODE, f.getfl)));
                }
                for bit in [libc::O_APPEND, libc::O_NONBLOCK, libc::O_NOATIME] {
                    if (flags & bit != 0) != (f.getfl & bit != 0) {
                        v.push(("wrong-status-flags".into(), format!("flag {bit:#o}: requested {:#o}, got F_GETFL {:#o}", flags, f.getfl)));
                    }
                }
                if f.getfl == h.handle_fl {
                    v.push(("not-a-new-description".into(), "reopened descriptor has the handle's own status flags (shared open file description?)".into()));
                }
            } else if f.getfl & libc::O_PATH == 0 {
                v.push(("wrong-access-mode".into(), "O_PATH requested but the descriptor is not O_PATH".into()));
            }
        }
        Outcome::Err { errno, kind, desc } => {
            if is_link && *errno != libc::ELOOP && !creation {
                // only ELOOP is documented for symlink handles; with a non-private procfs an over-mount may turn it into another error
                if !(overmount && !private_procfs) {
                    v.push(("symlink-handle-wrong-error".into(), format!("reopen of a symlink handle failed with {} ({kind}) instead of ELOOP", sys::errname(*errno))));
                }
            }
            // the result must not depend on descriptor number / history / mounts
            if let Some(Outcome::Fd(_)) = base {
                let excused = overmount && !private_procfs;
                if !excused && !is_interference(&rec.outcome) {
                    v.push((
                        "fails-where-baseline-succeeds".into(),
                        format!("reopen fails with {} ({kind}) although the same reopen of a freshly resolved handle succeeds: {desc}", sys::errname(*errno)),
                    ));
                }
            }
        }
        Outcome::Panic(m) => v.push(("panic".into(), m.clone())),
        _ => {}
    }
    if let (Some(Outcome::Err { errno: be, .. }), Outcome::Fd(_)) = (base, &rec.outcome) {
        v.push(("succeeds-where-baseline-fails".into(), format!("baseline reopen fails with {} but this one succeeds", sys::errname(*be))));
    }
    v
}

pub fn refine(clause: &str, case: &Case) -> String {
    let newfd = case.extra["newfd"].as_i64().unwrap_or(-1);
    let flags = case.extra["flags"].as_i64().unwrap_or(0) as i32;
    match clause {
        "fails-where-baseline-succeeds" if newfd == 0 => "fails-for-descriptor-0".into(),
        "creation-flags-accepted" if flags & libc::O_TMPFILE == libc::O_TMPFILE => "creation-flags-accepted:O_TMPFILE".into(),
        "creation-flags-accepted" => "creation-flags-accepted:O_CREAT/O_EXCL".into(),
        "different-inode" if flags & libc::O_TMPFILE == libc::O_TMPFILE => "different-inode:O_TMPFILE".into(),
        c => c.to_string(),
    }
}

fn cleanup_mounts() {
    // belt and braces: nothing may stay mounted over /proc between runs
    for p in ["/proc/self/fd", "/proc/thread-self", "/proc/self/task", "/proc/self"] {
        while sys::umount(p.as_bytes()).is_ok() {}
    }
    // /proc itself: only a tmpfs we mounted (f_type check)
    loop {
        match sys::open(b"/proc", libc::O_PATH | libc::O_DIRECTORY, 0) {
            Ok(fd) => {
                let t = sys::fs_type(fd);
                sys::close(fd);
                if t == Ok(sys::TMPFS_MAGIC) {
                    let _ = sys::umount(b"/proc");
                } else {
                    break;
                }
            }
            Err(_) => break,
        }
    }
}

pub fn run(u: &mut Universe, b: &Batch, st: &mut Stats) {
    if let Err(e) = warm_up(u) {
        st.harness_errors.push(format!("warm-up: {e}"));
        return;
    }
    for idx in b.lo..b.hi {
        coord::progress(idx);
        let replay_private = b.phase == "replay" && b.extra["case"]["phase"].as_str() == Some("private-table");
        if b.phase == "ofd" || (b.phase == "replay" && b.extra["case"]["phase"].as_str() == Some("ofd")) {
            if !run_ofd(u, b, idx, st) {
                return;
            }
            continue;
        }
        if b.phase == "fd-mount" || (b.phase == "replay" && b.extra["case"]["phase"].as_str() == Some("fd-mount")) {
            if !run_fd_mount(u, b, idx, st) {
                return;
            }
            continue;
        }
        if b.phase == "private-table" || replay_private {
            if !run_private(u, b, idx, st) {
                return;
            }
            continue;
        }
        let case = if b.phase == "replay" {
            match Case::from_json(&b.extra["case"]) {
                Some(c) => c,
                None => return,
            }
        } else if b.phase == "deep" {
            deep_case(&b.uni, idx)
        } else {
            gen_case(b.seed, idx, &b.uni)
        };
        // baseline first
        let tgt = case.extra["target"].as_str().unwrap_or("dir/file").to_string();
        let ridx = case.jobs[0].iter().position(|o| matches!(o.op, Op::Reopen { .. })).unwrap_or(usize::MAX);
        let mut hb = H { handle: None, handle_fl: 0, target: tgt.clone(), seq: 0, reopen_idx: usize::MAX };
        let base_case = baseline_of(&case);
        let outb = run_case(u, &base_case, &mut hb, false);
        let base = outb.records.iter().find(|r| matches!(r.spec.op, Op::Reopen { .. })).map(|r| r.outcome.clone());
        if u.poisoned {
            // the baseline itself panicked: report it as such
            for r in &outb.records {
                if let Outcome::Panic(m) = &r.outcome {
                    let v = mk_violation(&base_case, &outb, "C09", "panic", "reopen", m.clone());
                    st.violation(&v);
                }
            }
            return;
        }
        for (clause, detail) in judge(&base_case, &outb, &hb, None) {
            let v = mk_violation(&base_case, &outb, "C09", &refine(&clause, &base_case), "reopen", detail);
            st.violation(&v);
        }
        let mut h = H { handle: None, handle_fl: 0, target: tgt.clone(), seq: 0, reopen_idx: ridx };
        let out = run_case(u, &case, &mut h, false);
        cleanup_mounts();
        if case.extra["overmount"].as_bool() == Some(true) {
            u.poisoned = true; // never reuse a universe that has seen mounts
        }
        if let Some(e) = &out.harness_error {
            st.harness_errors.push(format!("history {idx}: {e}"));
            return;
        }
        st.evaluations += 1;
        st.merge_runout(&out);
        if let Some(r) = out.records.iter().find(|r| matches!(r.spec.op, Op::Reopen { .. })) {
            st.count(&format!("outcome.{}", r.outcome.class().split(':').take(3).collect::<Vec<_>>().join(":")), 1);
        }
        if case.jobs[0].iter().any(|o| matches!(o.op, Op::Sup { .. })) || !out.decisions.is_empty() {
            let mut hh = case.hash();
            sys::fnv(&mut hh, format!("{:?}", out.decisions.iter().map(|d| d.to_json().to_string()).collect::<Vec<_>>()).as_bytes());
            st.nontrivial.insert(hh);
        }
        if out.records.iter().any(|r| matches!(r.spec.op, Op::Reopen { .. }) && r.attacks_inside > 0) {
            st.count("reopen_with_attacker_inside", 1);
        }
        for (clause, detail) in judge(&case, &out, &h, base.as_ref()) {
            let v = mk_violation(&case, &out, "C09", &refine(&clause, &case), "reopen", detail);
            st.violation(&v);
        }
        if idx == b.lo {
            st.sample(json!({"universe": b.uni.tag(), "case": case.to_json(), "outcomes": out.records.iter().map(|r| r.outcome.class()).collect::<Vec<_>>()}));
        }
        if u.poisoned {
            return;
        }
    }
}

pub fn finalise(tier: &str, seed: u64, res: coord::CheckResult) -> i32 {
    coord::finalise(
        "C09",
        tier,
        seed,
        "exploration",
        "one evaluation = one history: resolve a handle (file, directory, fifo, symlink handle, character device) -> attacker operations on the handle's path (rename, replace by a same-named file/dir/symlink, unlink, rename an ancestor; 0-3 of them) -> renumber the handle's descriptor (0, 1, 2, 3, 5, 63, 150, 199 or unchanged) -> optionally mount tmpfs / a foreign directory over /proc, /proc/self, /proc/self/fd, /proc/thread-self -> reopen with a flag set from the power set of {access modes, O_APPEND, O_DIRECTORY, O_NOFOLLOW, O_CLOEXEC, O_TRUNC, O_NOATIME, O_CREAT, O_EXCL, O_TMPFILE, O_NOCTTY}; compared with the baseline (same handle type and flags, nothing in between); universes: K and E with private procfs, and with fsopen refused / the whole new mount API refused (non-private handles); fd-mount phase: a crafted directory whose entries are links named like descriptor numbers (all leading to a foreign file), or another process's fd directory, bind-mounted on the caller thread's own /proc/<pid>/task/<tid>/fd (the kernel refuses mounts on the fd/<n> magic-links themselves), before the reopen starts and at every system-call window of it (25 cases x 6 universes): with a private procfs the result is the baseline's, otherwise the call fails or returns the handle's inode, never the file the planted link leads to; deep phase: the handle's file is renamed to a path of exactly 4093 / 4094 / 4095 bytes (15 nested directories with 255-byte names), or to one of 4084..4086 bytes and unlinked (the descriptor's path text then ends in ' (deleted)'), 21 cases x 6 universes; ofd phase: a descriptor that is itself the result of a reopen is reopened again with the same or other flags (Rust/C): the result has its own file offset; private-table phase: the whole scenario runs in a caller thread with a private descriptor table (unshare(CLONE_FILES)) that opens the target itself, has the supervisor plant a decoy at the same descriptor number in the thread-group leader's table (or leave that number empty there), reopens through libpathrs (4 targets x flag sets x Rust/C, 60 cases per universe kind) and compares inodes itself: the answer must come from the calling thread's table; for the cases with a decoy every (system call of the reopen, errno of its catalogue) placement is enumerated as well (the call may fail, it never returns another inode); non-trivial = a history with at least one attacker / renumbering / mount step; distinct = hash of the case",
        res,
        Map::new(),
        vec![
            "with a non-private procfs handle an over-mount may only turn the call into an error".into(),
            "'new open file description' is checked through differing F_GETFL (kcmp is not available in this kernel)".into(),
        ],
        false,
        &|b, run| if b.phase == "private-table" || b.phase == "ofd" || b.phase == "fd-mount" || b.phase == "deep" { None } else { Some(gen_case(b.seed, run, &b.uni)) },
    )
    .exit_code
}
