//! C01 - in-root lookups match kernel RESOLVE_IN_ROOT semantics (quiescent).
use super::*;
use crate::case::{mk_violation, Case};
use crate::coord::{self, Batch, Stats};
use crate::gen;
use crate::ops::{Facade, Op, OpSpec, Outcome};
use crate::rng::{self, Rng};
use crate::sup::{Hooks, OpRecord, RunCtx};
use crate::world::Zone;
use serde_json::{json, Map};

pub const RUNS_PER_BATCH: u64 = 400;
pub const OPS_PER_RUN: usize = 12;

pub fn plan(tier: &str, seed: u64) -> Vec<Batch> {
    let n_batches = if tier == "thorough" { 600 } else if tier == "dev" { 2 } else { 60 };
    let mut v = Vec::new();
    for i in 0..n_batches {
        // every sixth batch runs in a mount namespace without any /proc (the library brings its own
        // procfs; the kernel's answers must come through unchanged there as well)
        let absent = i % 6 == 5;
        for mut uni in [UniCfg::k(), UniCfg::e()] {
            if absent {
                uni.proc_opts = "absent".into();
            }
            // every seventh batch of the emulated side: openat2 is refused with EPERM instead of
            // ENOSYS (seccomp profiles of older container runtimes)
            if uni.no_openat2 && i % 7 == 3 {
                uni.openat2_eperm = true;
            }
            v.push(Batch {
                check: "C01".into(),
                phase: "quiescent".into(),
                uni,
                seed,
                lo: i * RUNS_PER_BATCH,
                hi: (i + 1) * RUNS_PER_BATCH,
                fresh: false,
                tier: tier.into(),
                extra: serde_json::Value::Null,
            });
        }
    }
    v
}

pub fn gen_lookup_op(rng: &mut Rng, spec: &crate::world::WorldSpec, alphabet: usize) -> OpSpec {
    let path = gen::gen_path(rng, spec, alphabet);
    let op = match rng.below(10) {
        0..=3 => Op::Resolve { path, nofollow: false },
        4..=5 => Op::Resolve { path, nofollow: true },
        6..=8 => Op::OpenSubpath { path, flags: gen::gen_open_flags(rng) & !libc::O_TRUNC },
        // (C facade: the whole body's length is returned whatever the buffer holds; sizes around small bodies)
        _ => Op::Readlink { path, bufsz: *rng.pick(&[4096i64, 4096, 4096, 0, 1, 2, 3, 5, 8, 16]) },
    };
    let mut s = OpSpec::new(op);
    if rng.chance(1, 3) {
        s.facade = Facade::C;
    } else if rng.chance(1, 4) {
        s.no_symlinks = true;
    }
    s
}

/// link chains of exact lengths around the two budgets (kernel: 40 links, emulated resolver: 127):
/// c0 -> c1 -> ... -> c(n-1) -> target; looked up as a final and as an intermediate component
pub const CHAIN_LENGTHS: [usize; 12] = [1, 19, 20, 39, 40, 41, 42, 100, 127, 128, 129, 200];
pub fn chain_case(uni: &UniCfg, variant: u64) -> Case {
    let n = CHAIN_LENGTHS[variant as usize % CHAIN_LENGTHS.len()];
    let mut w = crate::world::WorldSpec::default();
    w.push(crate::world::Entry::dir("root"));
    w.push(crate::world::Entry::file("root/tgt/file", "CHAIN-TARGET"));
    for i in 0..n {
        let body = if i + 1 == n { "tgt".to_string() } else { format!("c{}", i + 1) };
        w.push(crate::world::Entry::link(&format!("root/c{i}"), &body));
    }
    w.push(crate::world::Entry::file("outside/secret", "OUTSIDE-SECRET"));
    let o = OpSpec::new;
    let mut c = Case::new("C01", "quiescent", uni.clone());
    c.world = Some(w);
    c.jobs = vec![vec![
        o(Op::Resolve { path: "c0".into(), nofollow: false }),
        o(Op::Resolve { path: "c0/file".into(), nofollow: false }).c(),
        o(Op::OpenSubpath { path: "c0/file".into(), flags: libc::O_RDONLY }),
        o(Op::Resolve { path: "c0".into(), nofollow: true }),
        o(Op::Readlink { path: "c1".into(), bufsz: 64 }),
        o(Op::Resolve { path: "c0/../c0/file".into(), nofollow: false }),
    ]];
    c
}

/// spellings just below PATH_MAX (4094 and 4095 bytes: the longest strings the quantifier contains)
/// and names of 255 / 256 bytes, both facades
pub fn long_path_case(uni: &UniCfg, variant: u64) -> Case {
    let mut w = crate::world::WorldSpec::default();
    let n255 = "n".repeat(255);
    w.push(crate::world::Entry::dir("root"));
    w.push(crate::world::Entry::file("root/a/f", "LONG-SPELLING-TARGET"));
    w.push(crate::world::Entry::link("root/a/l", "f"));
    w.push(crate::world::Entry::file(&format!("root/{n255}/f"), "255-BYTE-NAME"));
    w.push(crate::world::Entry::file("outside/secret", "OUTSIDE-SECRET"));
    // total length exactly `len`: "./" * k (+ one extra "/" for the parity) + tail
    let spell = |len: usize, tail: &str| {
        let pad = len - tail.len();
        let mut p = "./".repeat(pad / 2);
        if pad % 2 == 1 {
            p.insert(0, '/');
        }
        p.push_str(tail);
        p
    };
    let o = OpSpec::new;
    let cfac = variant % 2 == 1;
    let f = |s: OpSpec| if cfac { s.c() } else { s };
    let mut c = Case::new("C01", "quiescent", uni.clone());
    c.world = Some(w);
    c.jobs = vec![vec![
        f(o(Op::Resolve { path: spell(4095, "a/f"), nofollow: false })),
        f(o(Op::Resolve { path: spell(4094, "a/l"), nofollow: true })),
        f(o(Op::OpenSubpath { path: spell(4095, "a/l"), flags: libc::O_RDONLY })),
        f(o(Op::Readlink { path: spell(4095, "a/l"), bufsz: 16 })),
        f(o(Op::Resolve { path: format!("{n255}/f"), nofollow: false })),
        f(o(Op::Resolve { path: format!("{n255}n/f"), nofollow: false })),
        f(o(Op::Resolve { path: spell(4095, "a/../a/f/"), nofollow: false })),
    ]];
    c
}

pub fn gen_case(seed: u64, idx: u64, uni: &UniCfg) -> Case {
    if idx % 97 == 11 {
        return chain_case(uni, idx / 97 + seed);
    }
    if idx % 97 == 12 {
        return long_path_case(uni, idx / 97 + seed);
    }
    let mut rng = Rng::new(rng::derive(seed, "C01", idx));
    let mut wp = gen::WorldParams::swarm(&mut rng);
    wp.long_chains = true;
    let world = gen::gen_world(&mut rng, &wp);
    let mut c = Case::new("C01", "quiescent", uni.clone());
    let ops: Vec<OpSpec> = (0..OPS_PER_RUN).map(|_| gen_lookup_op(&mut rng, &world, wp.alphabet)).collect();
    c.world = Some(world);
    c.jobs = vec![ops];
    c
}

/// Compare one finished lookup with the kernel's own in-root resolution on
/// the same (quiescent) tree. Returns (clause, detail) on disagreement.
pub fn lookup_oracle(ctx: &RunCtx, rec: &OpRecord, rootfd: i32) -> Option<(String, String)> {
    // The kernel's own answer is not always a function of the tree: a lookup
    // that crosses more than 20 symlinks can come back ELOOP or not depending
    // on whether the RCU walk had to be restarted (the link count survives the
    // restart). The kernel is therefore asked up to three times and the
    // library agrees with it if it agrees with any of the answers.
    let mut last = None;
    for _ in 0..3 {
        last = lookup_oracle_once(ctx, rec, rootfd);
        if last.is_none() {
            return None;
        }
    }
    last
}

fn lookup_oracle_once(ctx: &RunCtx, rec: &OpRecord, rootfd: i32) -> Option<(String, String)> {
    let nosym = rec.spec.no_symlinks;
    match &rec.spec.op {
        Op::Resolve { path, nofollow } => {
            let k = kernel_lookup(rootfd, path, *nofollow, nosym);
            compare_obj(ctx, rec, &k, None)
        }
        Op::OpenSubpath { path, flags } => {
            if flags & (libc::O_CREAT | libc::O_EXCL) != 0 {
                return match &rec.outcome {
                    Outcome::Err { .. } => None,
                    o => Some(("creation-flags-accepted".into(), format!("open_subpath with creation flags returned {}", o.class()))),
                };
            }
            match kernel_open(rootfd, path, *flags, nosym) {
                Ok(fd) => {
                    let st = sys::fstat(fd).ok();
                    let kfl = sys::fcntl_getfl(fd);
                    sys::close(fd);
                    let k = match st {
                        Some(st) => KRes::Obj { ino: (st.st_dev, st.st_ino), ftype: st.st_mode & libc::S_IFMT },
                        None => KRes::Err(libc::EBADF),
                    };
                    compare_obj(ctx, rec, &k, Some(kfl))
                }
                // flag sets that openat2 itself rejects are outside the
                // property's quantifier ("open flag sets that openat2 accepts")
                Err(libc::EINVAL) => None,
                Err(e) => compare_obj(ctx, rec, &KRes::Err(e), None),
            }
        }
        Op::Readlink { path, .. } => {
            // kernel: no-follow lookup, then readlinkat(fd, "")
            let kres: Result<Vec<u8>, i32> = match sys::openat2(
                rootfd,
                path.as_bytes(),
                (libc::O_PATH | libc::O_NOFOLLOW) as u64,
                0,
                sys::RESOLVE_IN_ROOT | sys::RESOLVE_NO_MAGICLINKS | if nosym { sys::RESOLVE_NO_SYMLINKS } else { 0 },
            ) {
                Ok(fd) => {
                    let r = sys::readlinkat(fd, b"");
                    sys::close(fd);
                    r
                }
                Err(e) => Err(e),
            };
            match (&rec.outcome, &kres) {
                (Outcome::Bytes(b), Ok(k)) if b == k => None,
                (Outcome::CBytes { ret, buf, guard_ok }, Ok(k)) => {
                    if !*guard_ok {
                        Some(("buffer-overrun".into(), "C readlink wrote past the buffer".into()))
                    } else if *ret as usize != k.len() || buf[..buf.len().min(k.len())] != k[..buf.len().min(k.len())] {
                        Some(("readlink-body".into(), format!("C readlink returned len {ret}, kernel body {:?}", String::from_utf8_lossy(k))))
                    } else {
                        None
                    }
                }
                (Outcome::Err { errno, .. }, Err(k)) if errno == k => None,
                (o, k) => Some((
                    "readlink-differs".into(),
                    format!("library {} ({:?}) vs kernel {:?}", o.class(), o, k.as_ref().map(|b| String::from_utf8_lossy(b).into_owned()).map_err(|e| sys::errname(*e))),
                )),
            }
        }
        _ => None,
    }
}

fn compare_obj(ctx: &RunCtx, rec: &OpRecord, k: &KRes, kfl: Option<i32>) -> Option<(String, String)> {
    match (&rec.outcome, k) {
        (Outcome::Fd(_), KRes::Obj { ino, ftype }) => {
            let f = rec.facts.as_ref()?;
            if f.zone == Some(Zone::Outside) || (f.zone.is_none() && f.ino.0 != ctx.world.dev) {
                return Some(("returned-object-outside".into(), format!("returned {:?} ({}) which is outside the root", f.label, f.path)));
            }
            if f.ino != *ino || f.ftype != *ftype {
                let kl = ctx.world.lookup(*ino).map(|l| l.name.clone());
                return Some(("object-differs".into(), format!("library returned {:?} (type {:o}), kernel resolves to {:?} (type {:o})", f.label, f.ftype, kl, ftype)));
            }
            if let Some(kfl) = kfl {
                let mask = libc::O_ACCMODE | libc::O_APPEND | libc::O_NONBLOCK | libc::O_DIRECT | libc::O_SYNC | libc::O_NOATIME | libc::O_DIRECTORY | libc::O_PATH;
                if f.getfl & mask != kfl & mask {
                    return Some(("status-flags-differ".into(), format!("F_GETFL library {:#o} vs kernel {:#o}", f.getfl & mask, kfl & mask)));
                }
            }
            if f.getfd & libc::FD_CLOEXEC == 0 {
                return Some(("not-cloexec".into(), "returned descriptor is not close-on-exec".into()));
            }
            None
        }
        (Outcome::Err { errno, .. }, KRes::Err(ke)) => {
            if errno == ke {
                None
            } else {
                Some(("errno-differs".into(), format!("library {} vs kernel {}", sys::errname(*errno), sys::errname(*ke))))
            }
        }
        (Outcome::Panic(m), _) => Some(("panic".into(), m.clone())),
        (o, KRes::Obj { ino, ftype }) => {
            let kl = ctx.world.lookup(*ino).map(|l| l.name.clone());
            Some(("library-fails-kernel-succeeds".into(), format!("library {} but kernel resolves to {:?} (type {:o}); {:?}", o.class(), kl, ftype, o)))
        }
        (o, KRes::Err(ke)) => {
            let what = rec.facts.as_ref().map(|f| format!("{:?}", f.label)).unwrap_or_default();
            Some(("library-succeeds-kernel-fails".into(), format!("library {} {} but kernel says {}", o.class(), what, sys::errname(*ke))))
        }
    }
}

pub struct H {
    pub kernel_backend: bool,
    pub found: Vec<(usize, String, String)>,
    pub nontrivial: Vec<(usize, bool)>,
}

/// Refine a generic disagreement into the specific, documented divergence
/// classes (so that known findings are matched narrowly).
pub fn refine(clause: String, detail: String, rec: &OpRecord, links_followed: usize) -> (String, String) {
    let path = match &rec.spec.op {
        Op::Resolve { path, .. } | Op::OpenSubpath { path, .. } | Op::Readlink { path, .. } => path.as_str(),
        _ => "x",
    };
    if path.is_empty() && (clause == "library-succeeds-kernel-fails" || clause == "errno-differs") && detail.contains("kernel says ENOENT") | detail.contains("vs kernel ENOENT") {
        return ("empty-path-not-enoent".into(), format!("empty path: {detail}"));
    }
    // the documented divergence, narrowly: the *kernel* says ELOOP (more than 40 links), the
    // library does not, and the library crossed 41..127 links (its own budget is 128). Anything
    // else in the neighbourhood is not that finding: the library saying ELOOP where the kernel
    // resolves the path, or the library crossing 128 links or more.
    let kernel_eloop = detail.contains("kernel says ELOOP") || detail.contains("vs kernel ELOOP") || detail.contains("kernel Err(\"ELOOP\")");
    let lib_eloop = detail.contains("library ELOOP") || detail.contains(":ELOOP");
    if kernel_eloop && !lib_eloop {
        if links_followed > 40 && links_followed < 128 {
            return ("symlink-budget-differs".into(), format!("lookup crossed {links_followed} symlinks: {detail}"));
        }
        if links_followed > 20 && links_followed <= 40 {
            // the kernel's own answer is unreliable for 21..40 links (9.2): not a statement about the library
            return ("kernel-eloop-band".into(), detail);
        }
        if links_followed >= 128 {
            return ("symlink-budget-exceeded".into(), format!("lookup crossed {links_followed} symlinks without ELOOP: {detail}"));
        }
    }
    (clause, detail)
}

impl Hooks for H {
    fn end_op(&mut self, ctx: &mut RunCtx, rec: &mut OpRecord) {
        let rootfd = crate::ops::slot(rec.spec.root);
        if let Some((clause, detail)) = lookup_oracle(ctx, rec, rootfd) {
            // On the openat2 backend the library's answer *is* a kernel answer.
            // The kernel's ELOOP is not a function of the tree for chains of
            // 21..40 links (the link count survives an RCU-walk restart), so a
            // disagreement in which exactly one side says ELOOP is the kernel
            // disagreeing with itself; it is counted, not reported.
            if self.kernel_backend && (detail.contains("ELOOP") || detail.contains("errno: 40")) {
                ctx.out.probe("kernel_eloop_disagrees_with_itself");
                self.nontrivial.push((rec.idx, true));
                return;
            }
            // links of the tree that were read (the library also reads procfs links, for its '..' checks)
            let links = ctx.out.trace.iter().filter(|e| e.step >= rec.begin_step && e.thread == rec.thread && e.nr == libc::SYS_readlinkat && matches!(e.dir.as_ref().map(|d| &d.prov), Some(crate::sup::Prov::Tree(..)) | Some(crate::sup::Prov::TreeUnknown))).count();
            let (clause, detail) = refine(clause, detail, rec, links);
            if clause == "kernel-eloop-band" {
                ctx.out.probe("kernel_eloop_band_21_40_links(emulated side)");
                self.nontrivial.push((rec.idx, true));
                return;
            }
            self.found.push((rec.idx, clause, detail));
        }
        let nt = match &rec.outcome {
            Outcome::Err { errno, .. } => *errno != libc::ENOENT,
            _ => true,
        };
        self.nontrivial.push((rec.idx, nt));
    }
}

pub fn run(u: &mut Universe, b: &Batch, st: &mut Stats) {
    if let Err(e) = warm_up(u) {
        st.harness_errors.push(format!("warm-up: {e}"));
        return;
    }
    for idx in b.lo..b.hi {
        coord::progress(idx);
        let case = if b.phase == "replay" {
            match Case::from_json(&b.extra["case"]) {
                Some(c) => c,
                None => return,
            }
        } else {
            gen_case(b.seed, idx, &b.uni)
        };
        let mut tries = 0;
        loop {
            let mut h = H { kernel_backend: !case.uni.no_openat2, found: Vec::new(), nontrivial: Vec::new() };
            let out = run_case(u, &case, &mut h, false);
            if let Some(e) = &out.harness_error {
                st.harness_errors.push(format!("run {idx}: {e}"));
                return;
            }
            if out.records.iter().any(|r| is_interference(&r.outcome)) && tries < 3 {
                tries += 1;
                st.count("interference_reruns", 1);
                continue;
            }
            st.merge_runout(&out);
            let wh = case.world.as_ref().map(|w| {
                let mut hh = 0xcbf29ce484222325u64;
                sys::fnv(&mut hh, w.to_json().to_string().as_bytes());
                hh
            });
            for r in &out.records {
                st.evaluations += 1;
                st.count(&format!("outcome.{}.{}", r.spec.name(), r.outcome.class()), 1);
                let nt = h.nontrivial.iter().any(|(i, nt)| *i == r.idx && *nt);
                if nt {
                    let mut hh = wh.unwrap_or(0);
                    sys::fnv(&mut hh, r.spec.to_json().to_string().as_bytes());
                    st.nontrivial.insert(hh);
                }
            }
            for (i, clause, detail) in &h.found {
                // report the single failing op as its own case
                let mut c1 = case.clone();
                if b.phase != "replay" {
                    c1.jobs = vec![vec![case.jobs[0][*i].clone()]];
                }
                let v = mk_violation(&c1, &out, "C01", clause, case.jobs[0][*i].name(), detail.clone());
                st.violation(&v);
            }
            for f in &out.findings {
                let v = mk_violation(&case, &out, "C01", &f.clause, "run", f.detail.clone());
                st.violation(&v);
            }
            if idx == b.lo {
                st.sample(json!({"universe": b.uni.tag(), "world": case.world.as_ref().map(|w| w.to_json()), "ops": case.jobs[0].iter().take(4).map(|o| o.to_json()).collect::<Vec<_>>(),
                    "outcomes": out.records.iter().take(4).map(|r| r.outcome.class()).collect::<Vec<_>>()}));
            }
            break;
        }
        if u.poisoned {
            return;
        }
    }
}

pub fn finalise(tier: &str, seed: u64, res: coord::CheckResult) -> i32 {
    let mut extra = Map::new();
    extra.insert("universes".into(), json!(["K (openat2 present)", "E (openat2 answered ENOSYS from the first call)"]));
    coord::finalise(
        "C01",
        tier,
        seed,
        "exploration",
        "one evaluation = one lookup (resolve / resolve_nofollow / open_subpath / readlink, Rust or C facade, with or without NO_SYMLINKS) on a generated quiescent tree in a K or E universe, compared with a raw openat2(RESOLVE_IN_ROOT|RESOLVE_NO_MAGICLINKS) issued by the harness on the same tree; non-trivial = the outcome is a success or an error other than ENOENT; distinct = distinct hash of (world, operation)",
        res,
        extra,
        vec![
            "the kernel's own openat2 on this VM (6.18) is the reference for in-root resolution".into(),
            "quiescent: no attacker, no injected faults; EAGAIN interference from unrelated renames is re-run, not reported".into(),
        ],
        false,
        &|b, run| Some(gen_case(b.seed, run, &b.uni)),
    )
    .exit_code
}
