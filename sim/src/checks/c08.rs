//! C08 - procfs lookups use bounded resources and report true errors on any /proc.
//! A finite configuration matrix, enumerated completely.
use super::*;
use crate::case::{mk_violation, Case};
use crate::coord::{self, Batch, Stats};
use crate::ops::{Base, Op, OpSpec, Outcome, ProcCtor};
use crate::sup::{MountApi, RunOut};
use serde_json::{json, Map, Value};

pub const PROC_OPTS: [&str; 5] = ["", "hidepid=1", "hidepid=2", "hidepid=4", "subset=pid"];

/// privilege axis: (name, unpriv, mount_api)
pub const PRIVS: [(&str, bool, MountApi); 4] =
    [("root", false, MountApi::Ok), ("root-without-mount-api", false, MountApi::Eperm), ("root-without-fsopen", false, MountApi::NoFsopen), ("unprivileged", true, MountApi::Ok)];

pub fn cells() -> Vec<(UniCfg, String)> {
    let mut v = Vec::new();
    for (pname, unpriv, ma) in PRIVS {
        for po in PROC_OPTS {
            for e in [false, true] {
                let mut u = if e { UniCfg::e() } else { UniCfg::k() };
                u.unpriv = unpriv;
                u.mount_api = ma;
                u.proc_opts = po.to_string();
                v.push((u, pname.to_string()));
            }
        }
    }
    // no /proc at all in the caller's mount namespace (a privileged caller brings its own procfs;
    // only the library's error rendering ever looks at the host's /proc)
    for e in [false, true] {
        let mut u = if e { UniCfg::e() } else { UniCfg::k() };
        u.proc_opts = "absent".into();
        v.push((u, "root".to_string()));
    }
    v
}

/// (constructor, base, sub-path, class, operation: 0 open, 1 open_follow, 2 readlink)
pub fn lookups() -> Vec<(Option<ProcCtor>, Base, &'static str, &'static str, u8)> {
    let mut v = Vec::new();
    for kind in [0u8, 1, 2] {
        for ctor in [None, Some(ProcCtor::New), Some(ProcCtor::FromPlainOpen)] {
            for base in [Base::Root, Base::SelfP, Base::ThreadSelf] {
                v.push((ctor, base, "definitely-missing", "missing", kind));
                v.push((ctor, base, "missing-dir/missing", "missing", kind));
                if base == Base::Root {
                    if kind != 2 {
                        v.push((ctor, base, "sys/kernel/ostype", "masked", kind));
                        v.push((ctor, base, "1/status", "masked-pid", kind));
                        v.push((ctor, base, "filesystems", "masked", kind));
                        v.push((ctor, base, "self/status", "existing", kind));
                    }
                    // links that subset=pid hides
                    v.push((ctor, base, "mounts", "masked", kind));
                    v.push((ctor, base, "net", "masked", kind));
                    v.push((ctor, base, "self", "existing", kind));
                } else if kind != 2 {
                    v.push((ctor, base, "status", "existing", kind));
                    v.push((ctor, base, "fd", "existing", kind));
                } else {
                    v.push((ctor, base, "exe", "existing", kind));
                    v.push((ctor, base, "cwd", "existing", kind));
                }
            }
        }
    }
    v
}

/// history phase: (first lookup, which gets one fault; second lookup, fault-free and judged; class of the second)
pub fn history_scenarios() -> Vec<(Op, Op, &'static str)> {
    let open = |p: &str, follow: bool| Op::ProcOpen { handle: Some(0), base: Base::Root, path: p.into(), flags: if follow { libc::O_RDONLY | libc::O_NONBLOCK } else { libc::O_RDONLY | libc::O_NONBLOCK }, follow };
    vec![
        (open("sys/kernel/ostype", false), open("sys/kernel/ostype", false), "masked"),
        (open("sys/kernel/ostype", false), open("filesystems", false), "masked"),
        (open("mounts", true), open("mounts", true), "masked"),
        (open("definitely-missing", false), open("sys/kernel/ostype", false), "masked"),
        (open("filesystems", false), open("definitely-missing", false), "missing"),
        (Op::ProcReadlink { handle: Some(0), base: Base::Root, path: "mounts".into(), bufsz: 256 }, Op::ProcReadlink { handle: Some(0), base: Base::Root, path: "net".into(), bufsz: 256 }, "masked"),
    ]
}

fn history_case(uni: &UniCfg, sc: usize, script: Vec<crate::sup::Dec>) -> Case {
    let (a, b, class) = history_scenarios()[sc].clone();
    let mut c = Case::new("C08", "history", uni.clone());
    c.jobs = vec![vec![OpSpec::new(Op::ProcNew { ctor: ProcCtor::New, store: 0 }), OpSpec::new(a), OpSpec::new(b)]];
    c.plan.script = script;
    c.extra = json!({"class": class, "priv": "root", "ctor": "Some(New)", "path": "second lookup", "operation": "history"});
    c
}

fn run_history(u: &mut Universe, b: &Batch, sc: u64, st: &mut Stats) -> bool {
    // (run twice: the very first execution in a universe may contain one-time initialisation that
    // later executions do not repeat; placements are derived from the second)
    let _ = run_case(u, &history_case(&b.uni, sc as usize, vec![]), &mut crate::sup::NoHooks, false);
    let out0 = run_case(u, &history_case(&b.uni, sc as usize, vec![]), &mut crate::sup::NoHooks, false);
    if let Some(e) = &out0.harness_error {
        st.harness_errors.push(format!("history {sc}: {e}"));
        return false;
    }
    let sites: Vec<(usize, i64)> = out0.trace.iter().filter(|e| e.lib && e.op == Some(1) && e.nr != crate::seam::HYPERCALL_NR && e.nr != libc::SYS_futex).map(|e| (e.step, e.nr)).collect();
    for (step, nr) in sites {
        for f in crate::sup::fault_catalogue(nr) {
            let case = history_case(&b.uni, sc as usize, vec![crate::sup::Dec { step, fault: Some(f), ..Default::default() }]);
            let out = run_case(u, &case, &mut crate::sup::NoHooks, false);
            if let Some(e) = &out.harness_error {
                st.harness_errors.push(format!("history {sc}@{step}: {e}"));
                return false;
            }
            st.evaluations += 1;
            st.merge_runout(&out);
            st.nontrivial.insert(case.hash());
            st.count("history.placements", 1);
            // judge the second lookup (op 2) exactly like a matrix cell: it ran without any fault
            let mut out2 = out;
            out2.records.retain(|r| r.idx == 2 || matches!(r.outcome, Outcome::Panic(_)));
            if out2.records.iter().all(|r| r.idx != 2) {
                continue; // the constructor or the first lookup did not return normally (C10's subject)
            }
            // the second lookup is judged as a *fault-free* lookup: if the placement drifted into it
            // (the first lookup turned out shorter than in the reference trace) there is nothing to judge
            if out2.records.iter().any(|r| r.idx == 2 && r.faults_inside > 0) {
                st.count("history.placement_drifted_into_second_lookup", 1);
                continue;
            }
            let mut seen = std::collections::BTreeSet::new();
            for (clause, detail) in judge(&case, &out2) {
                let clause = format!("{clause}:after-a-transient-fault-in-an-earlier-lookup");
                if seen.insert(clause.clone()) {
                    let v = mk_violation(&case, &out2, "C08", &clause, "proc_open", detail);
                    st.violation(&v);
                }
            }
            if u.poisoned {
                return false;
            }
        }
    }
    true
}

pub fn plan(tier: &str, seed: u64) -> Vec<Batch> {
    let mut v = Vec::new();
    // history: a privileged caller on a masked host /proc; one transient fault in a first lookup
    // must not change what a second, fault-free lookup reports
    for po in ["subset=pid", "hidepid=2", ""] {
        for e in [false, true] {
            let mut u = if e { UniCfg::e() } else { UniCfg::k() };
            u.proc_opts = po.to_string();
            for sc in 0..history_scenarios().len() as u64 {
                v.push(Batch { check: "C08".into(), phase: "history".into(), uni: u.clone(), seed, lo: sc, hi: sc + 1, fresh: false, tier: tier.into(), extra: json!({"priv": "root"}) });
            }
        }
    }
    let n = lookups().len() as u64;
    for (i, (uni, pname)) in cells().into_iter().enumerate() {
        v.push(Batch { check: "C08".into(), phase: "matrix".into(), uni, seed, lo: 0, hi: n, fresh: false, tier: tier.into(), extra: json!({"priv": pname, "cell": i}) });
    }
    v
}

pub fn case_for(uni: &UniCfg, li: usize, privname: &str) -> Case {
    let (ctor, base, path, class, kind) = lookups()[li];
    let mut c = Case::new("C08", "matrix", uni.clone());
    let mut ops = Vec::new();
    let handle = match ctor {
        Some(ct) => {
            ops.push(OpSpec::new(Op::ProcNew { ctor: ct, store: 0 }));
            Some(0)
        }
        None => None,
    };
    // (a non-following open of a link needs O_PATH)
    let is_link = matches!(path, "mounts" | "net" | "self" | "exe" | "cwd");
    let mut o = match kind {
        0 => OpSpec::new(Op::ProcOpen { handle, base, path: path.into(), flags: if is_link { libc::O_PATH } else { libc::O_RDONLY | libc::O_NONBLOCK }, follow: false }),
        1 => OpSpec::new(Op::ProcOpen { handle, base, path: path.into(), flags: libc::O_RDONLY | libc::O_NONBLOCK, follow: true }),
        _ => OpSpec::new(Op::ProcReadlink { handle, base, path: path.into(), bufsz: 256 }),
    };
    if handle.is_none() {
        o = o.c();
    }
    ops.push(o);
    c.jobs = vec![ops];
    let opname = ["open", "open_follow", "readlink"][kind as usize];
    c.extra = json!({"class": class, "priv": privname, "ctor": format!("{ctor:?}"), "path": path, "operation": opname});
    c
}

// (open_follow legitimately builds up to three: the readlink probe, the lookup itself and the
// unmasked retry each may need an unmasked handle; the recursion this guards against builds hundreds)
pub const MAX_HANDLES: usize = 4;
pub const MAX_CALLS: usize = 2000;

pub fn judge(case: &Case, out: &RunOut) -> Vec<(String, String)> {
    let mut v = Vec::new();
    let rec = match out.records.iter().find(|r| matches!(r.spec.op, Op::ProcOpen { .. } | Op::ProcReadlink { .. })) {
        Some(r) => r,
        None => {
            // the constructor failed: fine unless it panicked
            for r in &out.records {
                if let Outcome::Panic(m) = &r.outcome {
                    v.push(("panic".into(), m.clone()));
                }
            }
            if out.records.is_empty() {
                v.push(("call-did-not-return".into(), "no operation returned".into()));
            }
            return v;
        }
    };
    // the constructor itself failed (try_from_fd on a plain open of a /proc that is not there):
    // there is no handle to judge
    if out.records.iter().any(|r| matches!(r.spec.op, Op::ProcNew { .. }) && matches!(r.outcome, Outcome::Err { .. })) {
        return v;
    }
    let class = case.extra["class"].as_str().unwrap_or("");
    let privileged = !case.uni.unpriv;
    // resources used inside the lookup
    let evs: Vec<&crate::sup::Ev> = out.trace.iter().filter(|e| e.lib && e.op == Some(rec.idx) && e.thread == rec.thread).collect();
    let handles = evs
        .iter()
        .filter(|e| e.nr == libc::SYS_fsopen || e.nr == libc::SYS_open_tree || (e.nr == libc::SYS_openat && e.path.as_deref() == Some(b"/proc")))
        .count();
    // The supervisor does not see results, so "a handle was created" is
    // recognised by what every successful construction does last: the
    // is-it-masked probe faccessat2(handle, "stat"). (fsmount only runs after a
    // successful fsopen+fsconfig and is counted as a cross-check.)
    let probes = evs.iter().filter(|e| (e.nr == libc::SYS_faccessat2 || e.nr == libc::SYS_faccessat) && e.path.as_deref() == Some(b"stat")).count();
    let fsmounts = evs.iter().filter(|e| e.nr == libc::SYS_fsmount && e.answer == crate::sup::Answer::Continue).count();
    let ctor_runs = probes.max(fsmounts);
    let _ = handles;
    if ctor_runs > MAX_HANDLES {
        v.push(("unbounded-handles".into(), format!("one lookup created {ctor_runs} procfs handles (bound {MAX_HANDLES}); {} trapped calls", evs.len())));
    }
    if evs.len() > MAX_CALLS {
        v.push(("unbounded-calls".into(), format!("one lookup made {} trapped calls", evs.len())));
    }
    let peak = {
        // descriptors opened minus closed inside the lookup (upper bound of the peak)
        let mut cur = 0i64;
        let mut peak = 0i64;
        for e in &evs {
            if crate::sup::is_fd_creating(e.nr, &e.args) && e.answer == crate::sup::Answer::Continue {
                cur += 1;
            }
            if e.nr == libc::SYS_close {
                cur -= 1;
            }
            peak = peak.max(cur);
        }
        peak
    };
    if peak > 16 {
        v.push(("unbounded-descriptors".into(), format!("one lookup held up to {peak} descriptors")));
    }
    match (&rec.outcome, class) {
        (Outcome::Panic(m), _) => v.push(("panic".into(), m.clone())),
        (Outcome::Err { errno, desc, .. }, "missing") => {
            if *errno != libc::ENOENT {
                v.push(("missing-path-not-enoent".into(), format!("lookup of a path that does not exist reports {} instead of ENOENT: {}", sys::errname(*errno), &desc[..desc.len().min(200)])));
            }
        }
        (o, "missing") if o.is_ok() => v.push(("missing-path-found".into(), "lookup of a missing path succeeded".into())),
        (Outcome::Err { errno, .. }, "existing") => v.push(("existing-path-fails".into(), format!("lookup of an existing path fails with {}", sys::errname(*errno)))),
        (Outcome::Err { errno, .. }, "masked") if privileged && case.uni.mount_api == MountApi::Ok => {
            v.push(("masked-path-not-found-by-privileged-caller".into(), format!("{} although the caller can create an unmasked procfs", sys::errname(*errno))))
        }
        _ => {}
    }
    v
}

pub fn run(u: &mut Universe, b: &Batch, st: &mut Stats) {
    // no warm-up world: unprivileged universes cannot build one; the lazies
    // are initialised by the first lookup, which is part of the matrix
    let privname = b.extra["priv"].as_str().unwrap_or("").to_string();
    for idx in b.lo..b.hi {
        coord::progress(idx);
        if b.phase == "history" {
            if !run_history(u, b, idx, st) {
                return;
            }
            continue;
        }
        let case = if b.phase == "replay" {
            match Case::from_json(&b.extra["case"]) {
                Some(c) => c,
                None => return,
            }
        } else {
            case_for(&b.uni, idx as usize, &privname)
        };
        let out = run_case(u, &case, &mut crate::sup::NoHooks, false);
        if let Some(e) = &out.harness_error {
            st.harness_errors.push(format!("matrix {idx}: {e}"));
            return;
        }
        st.evaluations += 1;
        st.merge_runout(&out);
        st.nontrivial.insert(case.hash());
        if let Some(r) = out.records.last() {
            st.count(&format!("outcome.{}.{}", case.extra["class"].as_str().unwrap_or(""), r.outcome.class()), 1);
        }
        let mut seen = std::collections::BTreeSet::new();
        for (clause, detail) in judge(&case, &out) {
            if seen.insert(clause.clone()) {
                let v = mk_violation(&case, &out, "C08", &clause, "proc_open", detail);
                st.violation(&v);
            }
        }
        if idx == b.lo && b.extra["cell"].as_u64().unwrap_or(0) % 10 == 0 {
            st.sample(json!({"universe": b.uni.tag(), "privilege": privname, "case": case.to_json(), "outcome": out.records.last().map(|r| r.outcome.class()), "trapped_calls": out.steps}));
        }
        if u.poisoned {
            return;
        }
    }
}

pub fn finalise(tier: &str, seed: u64, res: coord::CheckResult) -> i32 {
    let mut extra = Map::new();
    extra.insert(
        "matrix".into(),
        json!({"privilege": PRIVS.iter().map(|p| p.0).collect::<Vec<_>>(), "host_proc_options": PROC_OPTS, "resolvers": ["K", "E"], "lookups_per_cell": lookups().len(), "cells": cells().len()}),
    );
    coord::finalise(
        "C08",
        tier,
        seed,
        "fault_enumeration",
        "a finite configuration matrix enumerated completely: caller privilege {root; root with the new mount API refused (EPERM); root with only fsopen refused; real unprivileged uid without capabilities} x host /proc mounted with {default, hidepid=1, hidepid=2, hidepid=ptraceable, subset=pid; for root also: no /proc at all} x procfs resolver {K, E} x operation {open, open_follow, readlink} x constructor {global handle through the C API, ProcfsHandle::new, try_from_fd on a plain open} x base x sub-path {missing, missing in a missing directory, existing file/directory/link, masked-but-existing file and link (mounts, net)}; history phase: a privileged caller with a masked private handle, host /proc {subset=pid, hidepid=2, default}: one errno of the catalogue at every system call of a first lookup, then a second, fault-free lookup that is judged like a matrix cell (a transient failure must not turn 'exists' into ENOENT for later lookups); per lookup the seam counts procfs handles created, descriptors held and trapped calls; non-trivial and distinct = every cell x lookup is a distinct configuration",
        res,
        extra,
        vec!["the bounds (4 handles, 16 descriptors, 2000 calls per lookup) are the check's reading of 'a constant number'".into(), "RLIMIT_NOFILE is 256 in every universe so that an unbounded retry is observed instead of exhausting memory".into()],
        true,
        &|b, run| if b.phase == "history" { Some(history_case(&b.uni, run as usize, vec![])) } else { Some(case_for(&b.uni, run as usize, b.extra["priv"].as_str().unwrap_or(""))) },
    )
    .exit_code
}
