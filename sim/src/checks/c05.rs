//! C05 - only single, non-followed components are ever handed to the kernel.
//! A trace invariant: every trapped call made inside a libpathrs operation is
//! matched against an allow-list keyed by the provenance of its dirfd.
use super::attack::Attacker;
use super::mixed;
use super::*;
use crate::case::{mk_violation, Case};
use crate::coord::{self, Batch, Stats};
use crate::ops::{Op, OpSpec};
use crate::sup::{Answer, Ev, Prov, RunOut};
use serde_json::{json, Map, Value};

pub const PER_BATCH: u64 = 330;

pub fn plan(tier: &str, seed: u64) -> Vec<Batch> {
    let n = match tier {
        "thorough" => 400,
        "dev" => 1,
        _ => 40,
    };
    let mut v = Vec::new();
    for uni in [UniCfg::k(), UniCfg::e()] {
        for i in 0..n {
            v.push(Batch { check: "C05".into(), phase: "mixed".into(), uni: uni.clone().workers(4), seed, lo: i * PER_BATCH, hi: (i + 1) * PER_BATCH, fresh: false, tier: tier.into(), extra: Value::Null });
        }
        // first use: the bootstrap shapes (feature probes, procfs handle creation)
        v.push(Batch { check: "C05".into(), phase: "first-use".into(), uni: uni.clone().workers(4), seed, lo: 0, hi: if tier == "thorough" { 120 } else { 24 }, fresh: true, tier: tier.into(), extra: Value::Null });
    }
    // kernels without the new mount API / without privileges for it
    for (ma, tag) in [(crate::sup::MountApi::Enosys, 0u64), (crate::sup::MountApi::Eperm, 1), (crate::sup::MountApi::NoFsopen, 2)] {
        let mut uni = UniCfg::e().workers(4);
        uni.mount_api = ma;
        v.push(Batch { check: "C05".into(), phase: "first-use".into(), uni, seed, lo: 1000 + tag * 100, hi: 1000 + tag * 100 + 12, fresh: true, tier: tier.into(), extra: Value::Null });
    }
    v
}

fn single_component(p: &[u8]) -> bool {
    !p.is_empty() && !p.contains(&b'/')
}

fn is_decimal(p: &[u8]) -> bool {
    !p.is_empty() && p.iter().all(|b| b.is_ascii_digit())
}

fn diag_path(p: &[u8]) -> bool {
    // /proc/{thread-self,self,self/task/<tid>}[/fd/<n>|/cwd] : only used to render error messages
    let s = String::from_utf8_lossy(p);
    let rest = match s.strip_prefix("/proc/") {
        Some(r) => r,
        None => return false,
    };
    let comps: Vec<&str> = rest.split('/').collect();
    let (base_len, ok) = match comps.as_slice() {
        ["thread-self", ..] => (1, true),
        ["self", "task", t, ..] if t.bytes().all(|b| b.is_ascii_digit()) => (3, true),
        ["self", ..] => (1, true),
        _ => (0, false),
    };
    if !ok {
        return false;
    }
    match &comps[base_len..] {
        [] => true,
        ["cwd"] => true,
        ["fd", n] => n.bytes().all(|b| b.is_ascii_digit()),
        _ => false,
    }
}

const AT_SYMLINK_NOFOLLOW: u64 = 0x100;
const AT_SYMLINK_FOLLOW: u64 = 0x400;
const AT_EMPTY_PATH: u64 = 0x1000;

/// May this operation follow one trailing procfs link by design?
fn may_follow(spec: &OpSpec, uni_e: bool) -> bool {
    match &spec.op {
        Op::ProcOpen { follow, .. } => *follow,
        Op::Reopen { .. } | Op::MkdirAll { .. } => true,
        // the emulated one-shot open is resolve + reopen
        Op::OpenSubpath { .. } => uni_e,
        Op::CBadArg { func, .. } => func == "reopen" || func == "mkdir_all" || (uni_e && (func == "open" || func == "creat")),
        _ => false,
    }
}

/// The automaton. Returns Some((clause, why)) for a call outside the allow-list.
pub fn judge(ev: &Ev, spec: &OpSpec, uni_e: bool) -> Option<(&'static str, String)> {
    let a = &ev.args;
    let path = ev.path.as_deref().unwrap_or(b"");
    let prov = ev.dir.as_ref().map(|d| d.prov.clone());
    let on_tree = matches!(prov, Some(Prov::Tree(..)) | Some(Prov::TreeUnknown));
    let on_proc = matches!(prov, Some(Prov::Procfs));
    let on_cwd = matches!(prov, Some(Prov::Cwd));
    let cloexec = libc::O_CLOEXEC as u64;
    match ev.nr {
        // ---- legacy path calls: never, except the diagnostic readlink
        libc::SYS_readlink => {
            if diag_path(path) {
                None
            } else {
                Some(("legacy-call", "readlink(2) on a path other than a /proc/<self>/fd diagnostic".into()))
            }
        }
        libc::SYS_open | libc::SYS_creat | libc::SYS_stat | libc::SYS_lstat | libc::SYS_access | libc::SYS_chdir | libc::SYS_fchdir | libc::SYS_mkdir | libc::SYS_rmdir
        | libc::SYS_unlink | libc::SYS_rename | libc::SYS_link | libc::SYS_symlink | libc::SYS_chmod | libc::SYS_chown | libc::SYS_truncate | libc::SYS_statfs | libc::SYS_mknod
        | libc::SYS_getcwd => Some(("legacy-call", "path call that is not relative to a directory descriptor (or uses the current directory)".into())),
        libc::SYS_dup | libc::SYS_dup2 => Some(("not-cloexec", "dup/dup2 create a descriptor without close-on-exec".into())),
        libc::SYS_dup3 => {
            if a[2] & cloexec == 0 {
                Some(("not-cloexec", "dup3 without O_CLOEXEC".into()))
            } else {
                None
            }
        }
        libc::SYS_fcntl => {
            if a[1] as i32 == libc::F_DUPFD {
                Some(("not-cloexec", "fcntl(F_DUPFD) instead of F_DUPFD_CLOEXEC".into()))
            } else {
                None
            }
        }
        libc::SYS_fsopen => {
            if a[1] & 1 == 0 {
                Some(("not-cloexec", "fsopen without FSOPEN_CLOEXEC".into()))
            } else {
                None
            }
        }
        libc::SYS_fsmount => {
            if a[1] & 1 == 0 {
                Some(("not-cloexec", "fsmount without FSMOUNT_CLOEXEC".into()))
            } else {
                None
            }
        }
        libc::SYS_open_tree => {
            if a[2] & cloexec == 0 {
                return Some(("not-cloexec", "open_tree without OPEN_TREE_CLOEXEC".into()));
            }
            if on_cwd && path == b"/proc" {
                None
            } else {
                Some(("unexpected-bootstrap-call", "open_tree on something other than AT_FDCWD \"/proc\"".into()))
            }
        }
        libc::SYS_openat2 => {
            let (fl, res) = ev.oflags.unwrap_or((0, 0));
            if fl & cloexec == 0 {
                return Some(("not-cloexec", "openat2 without O_CLOEXEC".into()));
            }
            let acc_open = fl & libc::O_PATH as u64 == 0;
            // a terminal is unreachable for the "." feature probe and for a
            // procfs lookup confined by NO_XDEV|NO_MAGICLINKS (procfs has no tty nodes of its own)
            let tty_unreachable = (on_cwd && path == b"." && res == 0) || (on_proc && res & 0x0b == 0x0b);
            if acc_open && !tty_unreachable && fl & (libc::O_NOCTTY as u64 | libc::O_DIRECTORY as u64) == 0 {
                return Some(("may-become-controlling-tty", "openat2 opening for I/O without O_NOCTTY (and not O_DIRECTORY)".into()));
            }
            if on_tree {
                if res & 0x12 != 0x12 {
                    return Some(("unconfined-multi-component-lookup", format!("openat2 on a tree directory with resolve={res:#x} (needs RESOLVE_IN_ROOT|RESOLVE_NO_MAGICLINKS)")));
                }
                None
            } else if on_proc {
                if res & 0x0b != 0x0b {
                    return Some(("unconfined-multi-component-lookup", format!("openat2 on procfs with resolve={res:#x} (needs RESOLVE_BENEATH|RESOLVE_NO_XDEV|RESOLVE_NO_MAGICLINKS)")));
                }
                None
            } else if on_cwd {
                if path == b"." && res == 0 {
                    None // feature probe
                } else {
                    Some(("cwd-relative-lookup", "openat2 relative to the current directory".into()))
                }
            } else {
                Some(("lookup-on-foreign-dirfd", "openat2 on a descriptor that is neither the tree nor procfs".into()))
            }
        }
        libc::SYS_openat => {
            let fl = ev.oflags.map(|x| x.0).unwrap_or(0);
            if fl & cloexec == 0 {
                return Some(("not-cloexec", "openat without O_CLOEXEC".into()));
            }
            let nofollow = fl & libc::O_NOFOLLOW as u64 != 0;
            let tty_safe = fl & (libc::O_NOCTTY as u64 | libc::O_PATH as u64 | libc::O_DIRECTORY as u64) != 0;
            if !tty_safe {
                return Some(("may-become-controlling-tty", "openat without O_NOCTTY".into()));
            }
            if on_tree {
                if !single_component(path) {
                    return Some(("multi-component-path", format!("openat on a tree directory with path {:?}", String::from_utf8_lossy(path))));
                }
                if !nofollow {
                    return Some(("follows-symlink", "openat on a tree directory without O_NOFOLLOW".into()));
                }
                None
            } else if on_proc {
                if !single_component(path) {
                    return Some(("multi-component-path", format!("openat on procfs with path {:?}", String::from_utf8_lossy(path))));
                }
                if !nofollow {
                    // the only follows: a trailing procfs link the caller asked
                    // for, or the fd magic-link used for reopening
                    if !may_follow(spec, uni_e) {
                        return Some(("follows-symlink", format!("openat without O_NOFOLLOW on procfs during {}", spec.name())));
                    }
                    if !matches!(spec.op, Op::ProcOpen { .. }) && !is_decimal(path) {
                        return Some(("follows-symlink", format!("reopen follows procfs name {:?} which is not a descriptor number", String::from_utf8_lossy(path))));
                    }
                }
                None
            } else if on_cwd {
                let boot = path == b"/proc" && nofollow;
                let open_root = (matches!(spec.op, Op::OpenRoot { .. }) || matches!(&spec.op, Op::CBadArg { func, .. } if func == "open_root")) && nofollow;
                if boot || open_root {
                    None
                } else {
                    Some(("cwd-relative-lookup", format!("openat(AT_FDCWD, {:?})", String::from_utf8_lossy(path))))
                }
            } else {
                Some(("lookup-on-foreign-dirfd", "openat on a descriptor that is neither the tree nor procfs".into()))
            }
        }
        libc::SYS_newfstatat | libc::SYS_statx | libc::SYS_faccessat2 | libc::SYS_faccessat => {
            let flags = match ev.nr {
                libc::SYS_newfstatat => a[3],
                libc::SYS_statx => a[2],
                _ => a[3],
            };
            if on_cwd {
                return if diag_path(path) && flags & AT_SYMLINK_NOFOLLOW != 0 { None } else { Some(("cwd-relative-lookup", format!("stat-family call on {:?} relative to AT_FDCWD", String::from_utf8_lossy(path)))) };
            }
            if path.is_empty() {
                return if flags & AT_EMPTY_PATH != 0 { None } else { Some(("multi-component-path", "empty path without AT_EMPTY_PATH".into())) };
            }
            // ProcfsBase::into_path probes "thread-self" / "self/task/<tid>" / "self" on the procfs root
            let proc_probe = on_proc && (path == b"thread-self" || path == b"self" || (path.starts_with(b"self/task/") && is_decimal(&path[10..])));
            if !single_component(path) && !proc_probe {
                return Some(("multi-component-path", format!("stat-family call with path {:?}", String::from_utf8_lossy(path))));
            }
            if flags & AT_SYMLINK_NOFOLLOW == 0 {
                return Some(("follows-symlink", "stat-family call without AT_SYMLINK_NOFOLLOW".into()));
            }
            None
        }
        libc::SYS_readlinkat => {
            if on_cwd {
                return Some(("cwd-relative-lookup", "readlinkat relative to AT_FDCWD".into()));
            }
            if path.is_empty() || single_component(path) {
                None
            } else {
                Some(("multi-component-path", format!("readlinkat with path {:?}", String::from_utf8_lossy(path))))
            }
        }
        libc::SYS_mkdirat | libc::SYS_mknodat | libc::SYS_unlinkat | libc::SYS_symlinkat => {
            if !on_tree {
                return Some(("mutation-not-on-tree-dirfd", "mutating call whose dirfd is not a tree directory".into()));
            }
            if !single_component(path) {
                return Some(("multi-component-path", format!("mutating call with path {:?}", String::from_utf8_lossy(path))));
            }
            None
        }
        libc::SYS_linkat | libc::SYS_renameat | libc::SYS_renameat2 => {
            // RENAME_FLAGS_SUPPORTED probe: renameat2(AT_FDCWD, ".", AT_FDCWD, ".", EXCHANGE)
            let p2 = ev.path2.as_deref().unwrap_or(b"");
            let on_cwd2 = matches!(ev.dir2.as_ref().map(|d| d.prov.clone()), Some(Prov::Cwd));
            if ev.nr == libc::SYS_renameat2 && on_cwd && on_cwd2 && path == b"." && p2 == b"." {
                return None;
            }
            let on_tree2 = matches!(ev.dir2.as_ref().map(|d| d.prov.clone()), Some(Prov::Tree(..)) | Some(Prov::TreeUnknown));
            if !on_tree || !on_tree2 {
                return Some(("mutation-not-on-tree-dirfd", "two-path call whose dirfds are not tree directories".into()));
            }
            if !single_component(path) || !single_component(p2) {
                return Some(("multi-component-path", format!("two-path call with {:?} / {:?}", String::from_utf8_lossy(path), String::from_utf8_lossy(p2))));
            }
            if ev.nr == libc::SYS_linkat && a[4] & AT_SYMLINK_FOLLOW != 0 {
                return Some(("follows-symlink", "linkat with AT_SYMLINK_FOLLOW".into()));
            }
            None
        }
        libc::SYS_execve | libc::SYS_execveat | libc::SYS_mount | libc::SYS_umount2 | libc::SYS_move_mount => Some(("unexpected-call", "exec / mount family call".into())),
        _ => None,
    }
}

pub fn eval(case: &Case, out: &RunOut, st: &mut Stats) {
    let uni_e = case.uni.no_openat2;
    let pid = unsafe { libc::getpid() };
    let mut seen = std::collections::BTreeSet::new();
    let mut judged = 0u64;
    for ev in &out.trace {
        if !ev.lib || ev.nr == crate::seam::HYPERCALL_NR || ev.nr == libc::SYS_futex {
            continue;
        }
        // a configuration refusal / injected failure is still a call the library *issued*
        let _ = Answer::Continue;
        let spec = match ev.op.and_then(|k| case.jobs.get(ev.thread).and_then(|j| j.get(k))) {
            Some(s) => s,
            None => continue,
        };
        judged += 1;
        st.count(&format!("calls.{}", ev.name()), 1);
        if let Some((clause, why)) = judge(ev, spec, uni_e) {
            if seen.insert((clause, spec.name())) {
                let v = mk_violation(case, out, "C05", clause, spec.name(), format!("{why}: {}", ev.render(&out.tids, pid)));
                st.violation(&v);
            }
        }
    }
    st.evaluations += judged;
    // every returned descriptor is close-on-exec
    for r in &out.records {
        if let (Some(f), true) = (&r.facts, r.spec.is_lib_call()) {
            if f.getfd & libc::FD_CLOEXEC == 0 && seen.insert(("returned-fd-not-cloexec", r.spec.name())) {
                let v = mk_violation(case, out, "C05", "returned-fd-not-cloexec", r.spec.name(), format!("descriptor returned by {} is not close-on-exec", r.spec.name()));
                st.violation(&v);
            }
        }
    }
    // distinct shapes: (call, provenance class, op)
    for ev in &out.trace {
        if ev.lib && ev.nr != crate::seam::HYPERCALL_NR {
            let mut h = 0xcbf29ce484222325u64;
            let prov = ev.dir.as_ref().map(|d| match &d.prov {
                Prov::Tree(..) | Prov::TreeUnknown => "tree",
                Prov::Procfs => "procfs",
                Prov::Cwd => "cwd",
                _ => "other",
            });
            let opn = ev.op.and_then(|k| case.jobs.get(ev.thread).and_then(|j| j.get(k))).map(|s| s.name()).unwrap_or("");
            sys::fnv(&mut h, format!("{}|{:?}|{}|{:?}|{}|{:?}", ev.nr, prov, opn, ev.oflags, case.uni.tag(), ev.answer).as_bytes());
            st.nontrivial.insert(h);
        }
    }
}

pub fn run_one(u: &mut Universe, case: &Case, st: &mut Stats) -> Option<RunOut> {
    let w = case.world.clone().unwrap_or_default();
    let mut atk = Attacker::new(&w);
    if case.extra["inner"]["race_world"].as_bool() == Some(true) {
        atk.catalogue = Some(super::attack::race_mutations());
    }
    let out = run_case(u, case, &mut atk, false);
    if let Some(e) = &out.harness_error {
        st.harness_errors.push(format!("{}: {e}", case.phase));
        return None;
    }
    st.merge_runout(&out);
    st.count(&format!("slice.{}", case.extra["kind"].as_str().unwrap_or(&case.phase)), 1);
    Some(out)
}

pub fn first_use_case(seed: u64, idx: u64, uni: &UniCfg) -> Case {
    // one operation as the very first libpathrs call of a process
    let scs = super::c10::scenarios();
    let sc = &scs[(idx % scs.len() as u64) as usize];
    let mut c = super::c10::scenario_case(sc, uni, true, &super::c10::Placement::None);
    c.check = "C05".into();
    c.phase = "first-use".into();
    c.extra = json!({"kind": "first-use", "scenario": sc.name});
    let _ = seed;
    c
}

pub fn run(u: &mut Universe, b: &Batch, st: &mut Stats) {
    if !b.fresh {
        if let Err(e) = warm_up(u) {
            st.harness_errors.push(format!("warm-up: {e}"));
            return;
        }
    }
    for idx in b.lo..b.hi {
        coord::progress(idx);
        let case = match b.phase.as_str() {
            "replay" => match Case::from_json(&b.extra["case"]) {
                Some(c) => c,
                None => return,
            },
            "first-use" => first_use_case(b.seed, idx, &b.uni),
            _ => mixed::mixed_case(b.seed, idx, &b.uni, "C05"),
        };
        let out = match run_one(u, &case, st) {
            Some(o) => o,
            None => return,
        };
        eval(&case, &out, st);
        if idx == b.lo {
            st.sample(json!({"universe": b.uni.tag(), "slice": case.extra["kind"], "ops": case.jobs.iter().map(|j| j.iter().map(|o| o.name()).collect::<Vec<_>>()).collect::<Vec<_>>(),
                "trace_excerpt": out.render_trace().into_iter().take(12).collect::<Vec<_>>()}));
        }
        if u.poisoned {
            return;
        }
    }
}

pub fn finalise(tier: &str, seed: u64, res: coord::CheckResult) -> i32 {
    let mut extra = Map::new();
    let calls: Map<String, Value> = res.stats.counters.iter().filter(|(k, _)| k.starts_with("calls.")).map(|(k, v)| (k[6..].to_string(), json!(v))).collect();
    let slices: Map<String, Value> = res.stats.counters.iter().filter(|(k, _)| k.starts_with("slice.")).map(|(k, v)| (k[6..].to_string(), json!(v))).collect();
    extra.insert("calls_judged_by_name".into(), Value::Object(calls));
    extra.insert("workload_slices".into(), Value::Object(slices));
    coord::finalise(
        "C05",
        tier,
        seed,
        "exploration",
        "one evaluation = one system call issued from inside a libpathrs operation, judged by an allow-list automaton keyed by the provenance of its dirfd (tree / procfs / AT_FDCWD / other, obtained by fstat+fstatfs of the caller's descriptor at trap time); the workload replays slices of every other check (quiescent lookups and mutations, attacked lookups and mutations, single-entry ops, concurrent mkdir_all/remove_all, faulted scenarios, procfs through private and global handles, C invalid arguments, reopen) in K and E universes, plus first-use runs in fresh processes (also with the new mount API refused); non-trivial and distinct = distinct (system call, provenance class, flags, operation, universe, answer) shapes seen",
        res,
        extra,
        vec![
            "a dynamic trace invariant: 'for all programs' cannot be enumerated; the evidence lists which call shapes were observed".into(),
            "the allow-list is derived from the statement, not from the code: bootstrap shapes (feature probes, /proc handle creation) and error-rendering readlinks are listed explicitly".into(),
        ],
        false,
        &|b, run| match b.phase.as_str() {
            "first-use" => Some(first_use_case(b.seed, run, &b.uni)),
            _ => Some(mixed::mixed_case(b.seed, run, &b.uni, "C05")),
        },
    )
    .exit_code
}
