//! C10 - a failing system call anywhere inside an operation yields a clean
//! error. Exhaustive single-fault enumeration over the recorded trace of a
//! catalogue of scenarios, plus sticky descriptor exhaustion and repeated
//! EAGAIN on openat2.
use super::*;
use crate::case::{mk_violation, Case};
use crate::coord::{self, Batch, Stats};
use crate::ops::{Base, CreateKind, Op, OpSpec, Outcome, ProcCtor};
use crate::sup::{fault_catalogue, fault_name, is_fd_creating, Dec, Fault, Hooks, NoHooks, OpRecord, Plan, RunCtx, RunOut};
use crate::world::{Entry, WorldSpec};
use serde_json::{json, Map, Value};

pub fn basic_world() -> WorldSpec {
    let mut w = WorldSpec::default();
    w.push(Entry::dir("root"));
    w.push(Entry::file("secret", "TOP-SECRET-PARENT"));
    w.push(Entry::dir("outside/landing"));
    w.push(Entry::file("outside/secret", "OUTSIDE-SECRET"));
    w.push(Entry::dir("root/a/b/c"));
    w.push(Entry::file("root/a/b/c/file", "file-content"));
    w.push(Entry::link("root/a/link", "b/c"));
    w.push(Entry::link("root/abs", "/a/b"));
    w.push(Entry::link("root/dangling", "nope"));
    w.push(Entry::link("root/loop", "loop"));
    w.push(Entry::link("root/escape", "../../../outside/secret"));
    w.push(Entry::dir("root/dir2/sub/deep"));
    w.push(Entry::file("root/dir2/sub/deep/f", "deep-f"));
    w.push(Entry::dir("root/emptydir"));
    w.push(Entry::fifo("root/fifo"));
    w.push(Entry::dir("root/t/u/v"));
    w.push(Entry::file("root/t/u/v/file", "tuv"));
    w.push(Entry::file("root/t/u/g", "tug"));
    w.push(Entry::link("root/t/u/l", "../../a"));
    w.push(Entry::link("root/t/out", "/mnt/w/outside"));
    w.push(Entry::file("root/t/top", "ttop"));
    w
}

pub struct Scenario {
    pub name: &'static str,
    pub ops: Vec<OpSpec>,
}

fn o(op: Op) -> OpSpec {
    OpSpec::new(op)
}
fn s(x: &str) -> String {
    x.to_string()
}

pub fn scenarios() -> Vec<Scenario> {
    let mut v = vec![
        Scenario { name: "resolve-through-link", ops: vec![o(Op::Resolve { path: s("a/link/file"), nofollow: false })] },
        Scenario { name: "resolve-dotdot", ops: vec![o(Op::Resolve { path: s("a/b/../b/c/file"), nofollow: false })] },
        Scenario { name: "resolve-abs-link", ops: vec![o(Op::Resolve { path: s("abs/c/../c/file"), nofollow: false })] },
        Scenario { name: "resolve-nofollow-link", ops: vec![o(Op::Resolve { path: s("a/link"), nofollow: true })] },
        Scenario { name: "resolve-missing", ops: vec![o(Op::Resolve { path: s("a/missing/x"), nofollow: false })] },
        Scenario { name: "resolve-loop", ops: vec![o(Op::Resolve { path: s("loop"), nofollow: false })] },
        Scenario { name: "resolve-escape", ops: vec![o(Op::Resolve { path: s("escape"), nofollow: false })] },
        Scenario { name: "resolve-nosymlinks", ops: vec![o(Op::Resolve { path: s("a/link/file"), nofollow: false }).nosym(true)] },
        Scenario { name: "open-subpath-rdonly", ops: vec![o(Op::OpenSubpath { path: s("a/b/c/file"), flags: libc::O_RDONLY })] },
        Scenario { name: "open-subpath-rdwr-append", ops: vec![o(Op::OpenSubpath { path: s("abs/c/file"), flags: libc::O_RDWR | libc::O_APPEND })] },
        Scenario { name: "open-subpath-dir", ops: vec![o(Op::OpenSubpath { path: s("a/link"), flags: libc::O_RDONLY | libc::O_DIRECTORY })] },
        Scenario { name: "open-subpath-nofollow-link", ops: vec![o(Op::OpenSubpath { path: s("a/link"), flags: libc::O_PATH | libc::O_NOFOLLOW })] },
        Scenario { name: "readlink", ops: vec![o(Op::Readlink { path: s("a/link"), bufsz: 64 })] },
        Scenario { name: "create-file", ops: vec![o(Op::Create { path: s("a/b/newf"), kind: CreateKind::File(0o644) })] },
        Scenario { name: "create-dir", ops: vec![o(Op::Create { path: s("a/link/newd"), kind: CreateKind::Dir(0o755) })] },
        Scenario { name: "create-symlink", ops: vec![o(Op::Create { path: s("a/b/newl"), kind: CreateKind::Symlink(s("../../outside")) })] },
        Scenario { name: "create-hardlink", ops: vec![o(Op::Create { path: s("dir2/hl"), kind: CreateKind::Hardlink(s("a/b/c/file")) })] },
        Scenario { name: "create-fifo", ops: vec![o(Op::Create { path: s("a/newfifo"), kind: CreateKind::Fifo(0o600) })] },
        Scenario { name: "create-exists", ops: vec![o(Op::Create { path: s("a/b"), kind: CreateKind::Dir(0o755) })] },
        Scenario { name: "create-file-fd", ops: vec![o(Op::CreateFile { path: s("a/b/c/created"), flags: libc::O_RDWR, mode: 0o644 })] },
        Scenario { name: "create-file-excl-exists", ops: vec![o(Op::CreateFile { path: s("a/b/c/file"), flags: libc::O_RDWR | libc::O_EXCL, mode: 0o644 })] },
        Scenario { name: "mkdir-all-existing", ops: vec![o(Op::MkdirAll { path: s("a/b/c"), mode: 0o755 })] },
        Scenario { name: "mkdir-all-on-file", ops: vec![o(Op::MkdirAll { path: s("a/b/c/file"), mode: 0o755 })] },
        Scenario { name: "mkdir-all-on-link-to-file", ops: vec![o(Op::MkdirAll { path: s("a/link/file"), mode: 0o755 })] },
        Scenario { name: "mkdir-all-1", ops: vec![o(Op::MkdirAll { path: s("a/b/n1"), mode: 0o755 })] },
        Scenario { name: "mkdir-all-3-through-link", ops: vec![o(Op::MkdirAll { path: s("a/link/n1/n2/n3"), mode: 0o711 })] },
        Scenario { name: "mkdir-all-dangling", ops: vec![o(Op::MkdirAll { path: s("dangling/x"), mode: 0o755 })] },
        Scenario { name: "mkdir-all-file-in-way", ops: vec![o(Op::MkdirAll { path: s("a/b/c/file/x"), mode: 0o755 })] },
        Scenario { name: "remove-file", ops: vec![o(Op::RemoveFile { path: s("a/b/c/file") })] },
        Scenario { name: "remove-dir-empty", ops: vec![o(Op::RemoveDir { path: s("emptydir") })] },
        Scenario { name: "remove-dir-nonempty", ops: vec![o(Op::RemoveDir { path: s("dir2/sub") })] },
        Scenario { name: "remove-all-deep", ops: vec![o(Op::RemoveAll { path: s("t") })] },
        Scenario { name: "remove-all-file", ops: vec![o(Op::RemoveAll { path: s("a/b/c/file") })] },
        Scenario { name: "remove-all-missing", ops: vec![o(Op::RemoveAll { path: s("a/missing") })] },
        Scenario { name: "rename-plain", ops: vec![o(Op::Rename { src: s("a/b/c/file"), dst: s("dir2/moved"), flags: 0 })] },
        Scenario { name: "rename-noreplace-exists", ops: vec![o(Op::Rename { src: s("a/b/c/file"), dst: s("dir2/sub/deep/f"), flags: 1 })] },
        Scenario { name: "rename-exchange", ops: vec![o(Op::Rename { src: s("a/b"), dst: s("dir2/sub"), flags: 2 })] },
        Scenario {
            name: "reopen-file",
            ops: vec![o(Op::Resolve { path: s("a/b/c/file"), nofollow: false }).store(1), o(Op::Reopen { slot: 1, flags: libc::O_RDONLY })],
        },
        Scenario {
            name: "reopen-file-opath",
            ops: vec![o(Op::Resolve { path: s("a/b/c/file"), nofollow: false }).store(1), o(Op::Reopen { slot: 1, flags: libc::O_PATH })],
        },
        Scenario {
            name: "reopen-dir",
            ops: vec![o(Op::Resolve { path: s("a/b"), nofollow: false }).store(1), o(Op::Reopen { slot: 1, flags: libc::O_RDONLY | libc::O_DIRECTORY })],
        },
        Scenario {
            name: "reopen-symlink-handle",
            ops: vec![o(Op::Resolve { path: s("a/link"), nofollow: true }).store(1), o(Op::Reopen { slot: 1, flags: libc::O_RDONLY })],
        },
        Scenario {
            name: "reopen-symlink-handle-opath",
            ops: vec![o(Op::Resolve { path: s("a/link"), nofollow: true }).store(1), o(Op::Reopen { slot: 1, flags: libc::O_PATH })],
        },
        Scenario { name: "proc-new", ops: vec![o(Op::ProcNew { ctor: ProcCtor::New, store: 0 })] },
        Scenario {
            name: "proc-open-status",
            ops: vec![
                o(Op::ProcNew { ctor: ProcCtor::New, store: 0 }),
                o(Op::ProcOpen { handle: Some(0), base: Base::SelfP, path: s("status"), flags: libc::O_RDONLY, follow: false }),
            ],
        },
        Scenario {
            name: "proc-open-follow-exe",
            ops: vec![
                o(Op::ProcNew { ctor: ProcCtor::New, store: 0 }),
                o(Op::ProcOpen { handle: Some(0), base: Base::SelfP, path: s("exe"), flags: libc::O_PATH, follow: true }),
            ],
        },
        Scenario {
            name: "proc-open-follow-nonlink",
            ops: vec![
                o(Op::ProcNew { ctor: ProcCtor::New, store: 0 }),
                o(Op::ProcOpen { handle: Some(0), base: Base::ThreadSelf, path: s("stat"), flags: libc::O_RDONLY, follow: true }),
            ],
        },
        Scenario {
            name: "proc-readlink-exe",
            ops: vec![o(Op::ProcNew { ctor: ProcCtor::New, store: 0 }), o(Op::ProcReadlink { handle: Some(0), base: Base::SelfP, path: s("exe"), bufsz: 256 })],
        },
        // entries that only exist on an unmasked procfs (ProcfsHandle::new() is subset=pid): the
        // lookup needs a second, unmasked handle in the middle of the call
        Scenario {
            name: "proc-open-follow-masked-link",
            ops: vec![
                o(Op::ProcNew { ctor: ProcCtor::New, store: 0 }),
                o(Op::ProcOpen { handle: Some(0), base: Base::Root, path: s("mounts"), flags: libc::O_PATH, follow: true }),
            ],
        },
        Scenario {
            name: "proc-open-follow-masked-link-rdonly",
            ops: vec![
                o(Op::ProcNew { ctor: ProcCtor::New, store: 0 }),
                o(Op::ProcOpen { handle: Some(0), base: Base::Root, path: s("net"), flags: libc::O_RDONLY | libc::O_DIRECTORY, follow: true }),
            ],
        },
        Scenario {
            name: "proc-open-masked-file",
            ops: vec![
                o(Op::ProcNew { ctor: ProcCtor::New, store: 0 }),
                o(Op::ProcOpen { handle: Some(0), base: Base::Root, path: s("sys/kernel/ostype"), flags: libc::O_RDONLY, follow: false }),
            ],
        },
        Scenario {
            name: "proc-readlink-masked-link",
            ops: vec![o(Op::ProcNew { ctor: ProcCtor::New, store: 0 }), o(Op::ProcReadlink { handle: Some(0), base: Base::Root, path: s("mounts"), bufsz: 256 })],
        },
        Scenario { name: "proc-open-missing", ops: vec![o(Op::ProcNew { ctor: ProcCtor::New, store: 0 }), o(Op::ProcOpen { handle: Some(0), base: Base::Root, path: s("nope/missing"), flags: libc::O_RDONLY, follow: false })] },
        Scenario { name: "open-root", ops: vec![o(Op::OpenRoot { path: s("/mnt/w/root/a") })] },
        Scenario { name: "clone-root", ops: vec![o(Op::CloneRoot)] },
    ];
    // C facade variants of a representative subset
    let c_names = ["resolve-through-link", "resolve-missing", "open-subpath-rdonly", "readlink", "create-file-fd", "mkdir-all-3-through-link", "remove-all-deep", "rename-plain", "reopen-file"];
    let mut cv = Vec::new();
    for sc in &v {
        if c_names.contains(&sc.name) {
            cv.push(Scenario { name: Box::leak(format!("C:{}", sc.name).into_boxed_str()), ops: sc.ops.iter().map(|o| o.clone().c()).collect() });
        }
    }
    cv.push(Scenario { name: "C:proc-open-status", ops: vec![o(Op::ProcOpen { handle: None, base: Base::SelfP, path: s("status"), flags: libc::O_RDONLY, follow: false }).c()] });
    cv.push(Scenario { name: "C:proc-open-follow-exe", ops: vec![o(Op::ProcOpen { handle: None, base: Base::ThreadSelf, path: s("exe"), flags: libc::O_PATH, follow: true }).c()] });
    cv.push(Scenario { name: "C:proc-readlink", ops: vec![o(Op::ProcReadlink { handle: None, base: Base::ThreadSelf, path: s("cwd"), bufsz: 128 }).c()] });
    v.extend(cv);
    v
}

/// scenarios whose *first use* (fresh process: lazies initialised inside the call) is enumerated too
pub const FRESH_SCENARIOS: [&str; 8] =
    ["resolve-through-link", "mkdir-all-1", "reopen-file", "proc-open-status", "C:reopen-file", "C:proc-open-status", "C:resolve-missing", "open-subpath-rdonly"];

#[derive(Clone, Debug, PartialEq)]
pub enum Placement {
    None,
    Single(usize, Fault),
    /// (from step, errno): EMFILE on every descriptor-creating call, any other errno on every call that can report it
    Sticky(usize, i32),
    /// (from step, errno, system call number): the same, for calls of that one kind only
    StickyNr(usize, i32, i64),
    Eagain(usize, usize),
    /// sparse random faults: (seed, per-mille per call)
    Random(u64, u64),
    /// descriptor capacity (EMFILE whenever that many descriptors are open)
    FdCap(usize),
}

impl Placement {
    pub fn to_json(&self) -> Value {
        match self {
            Placement::None => json!(["none"]),
            Placement::Single(s, f) => json!(["single", s, Dec { step: *s, fault: Some(f.clone()), ..Default::default() }.to_json()["fault"]]),
            Placement::Sticky(s, e) => json!(["sticky", s, sys::errname(*e)]),
            Placement::StickyNr(s, e, nr) => json!(["sticky_nr", s, sys::errname(*e), nr]),
            Placement::Eagain(i, k) => json!(["eagain", i, k]),
            Placement::Random(s, p) => json!(["random", s, p]),
            Placement::FdCap(n) => json!(["fdcap", n]),
        }
    }
    pub fn from_json(v: &Value) -> Placement {
        match v[0].as_str() {
            Some("single") => {
                let d = Dec::from_json(&json!({"step": v[1], "fault": v[2]}));
                Placement::Single(d.step, d.fault.unwrap_or(Fault::Errno(libc::EIO)))
            }
            Some("sticky") => Placement::Sticky(v[1].as_u64().unwrap_or(0) as usize, v[2].as_str().and_then(sys::errnum).unwrap_or(libc::EMFILE)),
            Some("sticky_nr") => Placement::StickyNr(v[1].as_u64().unwrap_or(0) as usize, v[2].as_str().and_then(sys::errnum).unwrap_or(libc::EIO), v[3].as_i64().unwrap_or(0)),
            Some("eagain") => Placement::Eagain(v[1].as_u64().unwrap_or(0) as usize, v[2].as_u64().unwrap_or(1) as usize),
            Some("random") => Placement::Random(v[1].as_u64().unwrap_or(0), v[2].as_u64().unwrap_or(20)),
            Some("fdcap") => Placement::FdCap(v[1].as_u64().unwrap_or(0) as usize),
            _ => Placement::None,
        }
    }
    pub fn plan(&self) -> Plan {
        let mut p = Plan::default();
        match self {
            Placement::None => {}
            Placement::Single(s, f) => p.script.push(Dec { step: *s, fault: Some(f.clone()), ..Default::default() }),
            Placement::Sticky(s, e) => p.sticky = Some((*s, *e)),
            Placement::StickyNr(s, e, nr) => {
                p.sticky = Some((*s, *e));
                p.sticky_nr = Some(*nr);
            }
            Placement::Eagain(i, k) => p.eagain = Some((*i, *k)),
            Placement::FdCap(n) => p.fd_cap = Some(*n),
            Placement::Random(seed, pm) => {
                p.seeded = Some(crate::sup::Seeded { seed: *seed, p_switch: 0, p_attack: 0, p_fault: *pm, max_attacks: 0, pct_depth: 0 })
            }
        }
        p
    }
}

pub fn scenario_case(sc: &Scenario, uni: &UniCfg, fresh: bool, pl: &Placement) -> Case {
    let mut c = Case::new("C10", if fresh { "first-use" } else { "warm" }, uni.clone());
    c.fresh = fresh;
    c.world = Some(basic_world());
    c.jobs = vec![sc.ops.clone()];
    c.plan = pl.plan();
    c.extra = json!({"scenario": sc.name, "placement": pl.to_json()});
    let _ = &c;
    c
}

/// Enumerate placements from the fault-free trace: only calls inside the
/// *last* operation of the scenario (the earlier ones are set-up).
pub fn placements(out: &RunOut, target_op: usize) -> Vec<Placement> {
    let mut v = Vec::new();
    // descriptor capacities from "nothing more can be opened" up to 13 spare descriptors
    if let Some(r) = out.records.iter().find(|r| r.idx == target_op) {
        for k in 0..14 {
            v.push(Placement::FdCap(r.fds_before.len() + k));
        }
    }
    let mut n_openat2 = 0;
    let mut openat2_before = 0;
    for ev in &out.trace {
        if ev.nr == crate::seam::HYPERCALL_NR || ev.nr == libc::SYS_futex {
            continue;
        }
        if !ev.lib {
            continue;
        }
        if ev.op != Some(target_op) {
            if ev.nr == libc::SYS_openat2 {
                openat2_before += 1;
            }
            continue;
        }
        // a configuration refusal (E universe: openat2 -> ENOSYS) is not a placement;
        // neither are calls the supervisor always answers itself (getrandom)
        if ev.config_refusal || ev.nr == libc::SYS_getrandom {
            continue;
        }
        for f in fault_catalogue(ev.nr) {
            v.push(Placement::Single(ev.step, f));
        }
        if is_fd_creating(ev.nr, &ev.args) {
            v.push(Placement::Sticky(ev.step, libc::EMFILE));
        }
        // a condition that persists from this call on: memory pressure, I/O errors. (Not EINTR: an
        // interrupted call is retried without bound by convention - rustix's directory iterator does
        // so for getdents64 - and an endless storm of signals is the environment's livelock, not a
        // fault the call can be expected to survive.)
        for e in [libc::ENOMEM, libc::EIO] {
            if fault_catalogue(ev.nr).iter().any(|f| matches!(f, Fault::Errno(x) if *x == e)) {
                v.push(Placement::Sticky(ev.step, e));
                v.push(Placement::StickyNr(ev.step, e, ev.nr));
            }
        }
        if ev.nr == libc::SYS_openat2 && !ev.config_refusal {
            for k in [1usize, 2, 15, 16, 17, 20] {
                v.push(Placement::Eagain(openat2_before + n_openat2, k));
            }
            n_openat2 += 1;
        }
    }
    v
}

struct Snap {
    tree: Vec<String>,
}
impl Hooks for Snap {
    fn end_op(&mut self, ctx: &mut RunCtx, rec: &mut OpRecord) {
        let _ = rec;
        self.tree = ctx.world.full_snapshot("root");
    }
}

fn strip_ids(p: &str) -> String {
    // a procfs handle that fell back from a private mount to the host's /proc
    // (a deliberate tolerance under faults) shows the same object below /proc
    let p = p.strip_prefix("/proc/").map(|r| format!("/{r}")).unwrap_or_else(|| p.to_string());
    // ProcfsBase::ProcThreadSelf deliberately degrades from thread-self to
    // self/task/<tid> to self when its probes fail ("technically incorrect but
    // we have no other choice"): /<pid>/task/<tid>/x and /<pid>/x are the same
    // answer as far as this oracle is concerned
    let p = {
        let c: Vec<&str> = p.split('/').collect();
        if c.len() > 4 && c[2] == "task" && c[1].bytes().all(|b| b.is_ascii_digit()) && c[3].bytes().all(|b| b.is_ascii_digit()) {
            format!("/{}/{}", c[1], c[4..].join("/"))
        } else {
            p
        }
    };
    // pids / tids differ between universes: numeric components become N
    p.split('/').map(|c| if !c.is_empty() && c.len() >= 3 && c.bytes().all(|b| b.is_ascii_digit()) { "N" } else { c }).collect::<Vec<_>>().join("/")
}

fn describe_result(r: &OpRecord) -> String {
    match &r.outcome {
        Outcome::Fd(_) => {
            let f = r.facts.as_ref();
            format!(
                "fd:{}:{:o}:{:#o}",
                f.map(|f| strip_ids(&f.path)).unwrap_or_default(),
                f.map(|f| f.ftype).unwrap_or(0),
                f.map(|f| f.getfl & (libc::O_ACCMODE | libc::O_APPEND | libc::O_PATH | libc::O_DIRECTORY)).unwrap_or(0)
            )
        }
        Outcome::Bytes(b) => format!("bytes:{}", String::from_utf8_lossy(b)),
        Outcome::CBytes { ret, buf, .. } => format!("bytes:{}:{}", ret, String::from_utf8_lossy(buf)),
        o => o.class(),
    }
}

pub fn check_run(case: &Case, out: &RunOut, tree: &[String], base: Option<&(String, Vec<String>, bool)>, pl: &Placement) -> Vec<(String, String)> {
    let mut v = Vec::new();
    let last = match out.records.last() {
        Some(r) => r,
        None => {
            v.push(("no-result".to_string(), "operation did not return".to_string()));
            return v;
        }
    };
    let target = case.jobs[0].len() - 1;
    if matches!(last.outcome, Outcome::Harness(-2)) {
        return v; // set-up failed under random faults: the target had nothing to work on
    }
    if last.idx != target && out.records.len() < case.jobs[0].len() {
        v.push(("no-result".to_string(), format!("target operation did not return (last finished op {})", last.idx)));
    }
    for r in &out.records {
        if let Outcome::Panic(m) = &r.outcome {
            v.push(("panic".to_string(), format!("{} panicked: {m}", r.spec.name())));
        }
    }
    for f in &out.findings {
        v.push((f.clause.clone(), f.detail.clone()));
    }
    if !out.leaked_fds.is_empty() {
        v.push(("descriptor-leak".to_string(), format!("descriptors left open after the run: {:?}", out.leaked_fds.iter().map(|e| e.0).collect::<Vec<_>>())));
    }
    // descriptor table around the target op
    if last.idx == target {
        let mut expect = last.fds_before.iter().map(|e| e.0).collect::<Vec<_>>();
        if let Outcome::Fd(fd) = last.outcome {
            expect.push(fd);
        }
        // the process-lifetime procfs handle may appear on first use
        let extra: Vec<i32> = last.fds_after.iter().map(|e| e.0).filter(|fd| !expect.contains(fd)).collect();
        let missing: Vec<i32> = expect.iter().copied().filter(|fd| !last.fds_after.iter().any(|e| e.0 == *fd)).collect();
        let extra_nonpersist: Vec<i32> = extra.iter().copied().filter(|fd| !(case.fresh && out.new_persistent_fds.iter().any(|e| e.0 == *fd))).collect();
        // ProcNew keeps a handle open by design
        let keeps = matches!(last.spec.op, Op::ProcNew { .. }) && last.outcome.is_ok();
        if !keeps && (!extra_nonpersist.is_empty() || !missing.is_empty()) {
            v.push(("descriptor-table".to_string(), format!("after the call: unexpected open {:?}, unexpectedly closed {:?}", extra_nonpersist, missing)));
        }
    }
    if let Some((base_res, base_tree, base_ok)) = base {
        if last.idx == target && last.outcome.is_ok() && *pl != Placement::None {
            // success under a fault must be the fault-free success
            let got = describe_result(last);
            if !*base_ok {
                v.push(("success-where-fault-free-fails".to_string(), format!("fault-free result {base_res}, under fault {got}")));
            } else if &got != base_res {
                v.push(("wrong-result-under-fault".to_string(), format!("fault-free result {base_res}, under fault {got}")));
            } else if tree != base_tree.as_slice() {
                v.push(("success-without-the-work".to_string(), format!("reports success but the tree differs from the fault-free result: {}", crate::sup::diff_snap(base_tree, tree))));
            }
        }
        if let Placement::Eagain(_, k) = pl {
            if last.idx == target {
                let fired = out.faults_fired.get("openat2:EAGAIN").copied().unwrap_or(0) as usize;
                if *k >= 16 {
                    // only meaningful if the library really consumed 16 EAGAINs in a row
                    // (on first use a failing feature probe selects the emulated
                    // backend instead, which is a deliberate tolerance)
                    match &last.outcome {
                        Outcome::Err { .. } => {}
                        o if o.is_ok() && *base_ok && fired >= 16 => {
                            v.push(("eagain-not-bounded".to_string(), format!("{fired} consecutive EAGAIN consumed but the call returned {}", o.class())))
                        }
                        _ => {}
                    }
                } else if *base_ok && !last.outcome.is_ok() && fired == *k {
                    // fewer than 16 EAGAINs must be absorbed by the retry loop
                    // (unless they are spread over nested lookups; see detail)
                    if let Outcome::Err { kind, .. } = &last.outcome {
                        if *k <= 2 {
                            v.push(("eagain-not-retried".to_string(), format!("{k} EAGAIN made the call fail with {kind}")));
                        }
                    }
                }
            }
        }
    }
    v
}

pub fn plan_probe(tier: &str, seed: u64) -> Vec<Batch> {
    let n = scenarios().len() as u64;
    let mut v = Vec::new();
    for uni in [UniCfg::k(), UniCfg::e()] {
        v.push(Batch { check: "C10".into(), phase: "probe".into(), uni: uni.clone(), seed, lo: 0, hi: n, fresh: false, tier: tier.into(), extra: Value::Null });
        v.push(Batch { check: "C10".into(), phase: "probe-fresh".into(), uni, seed, lo: 0, hi: n, fresh: true, tier: tier.into(), extra: Value::Null });
    }
    // the openat2 backend in a mount namespace without any /proc (warm only): the library's error
    // rendering reads /proc/thread-self/fd/N and fails there - errnos must come through all the same
    let mut ka = UniCfg::k();
    ka.proc_opts = "absent".into();
    v.push(Batch { check: "C10".into(), phase: "probe".into(), uni: ka, seed, lo: 0, hi: n, fresh: false, tier: tier.into(), extra: Value::Null });
    v
}

/// Stage 2: from the probe's placement lists build the enumeration batches.
pub fn plan_enum(tier: &str, seed: u64, probe: &Stats) -> Vec<Batch> {
    let mut v = Vec::new();
    for note in &probe.notes {
        let p: Value = match serde_json::from_str(note) {
            Ok(p) => p,
            Err(_) => continue,
        };
        let uni = UniCfg::from_json(&p["uni"]);
        let fresh = p["fresh"].as_bool().unwrap_or(false);
        let sc = p["scenario"].as_u64().unwrap_or(0);
        let pls = p["placements"].as_array().cloned().unwrap_or_default();
        // quick: thin out the fresh (one process per run) enumerations
        let stride = if tier == "thorough" { 1 } else if fresh { 6 } else { 1 };
        let mut sel: Vec<Value> = pls.iter().enumerate().filter(|(i, _)| (i + sc as usize) % stride == 0).map(|(_, x)| x.clone()).collect();
        // sampled multi-fault sequences: sparse random faults over the whole scenario
        if !fresh {
            let nrand = if tier == "thorough" { 400 } else { 40 };
            for k in 0..nrand {
                let rs = crate::rng::derive(seed, "C10-random", sc * 10_000 + k);
                sel.push(Placement::Random(rs, [20u64, 50, 100, 200][(k % 4) as usize]).to_json());
            }
        }
        let chunk = if fresh { 40 } else { 400 };
        for (ci, ch) in sel.chunks(chunk).enumerate() {
            v.push(Batch {
                check: "C10".into(),
                phase: if fresh { "enum-fresh".into() } else { "enum".into() },
                uni: uni.clone(),
                seed,
                lo: 0,
                hi: ch.len() as u64,
                fresh,
                tier: tier.into(),
                extra: json!({"scenario": sc, "placements": ch, "base": p["base"], "chunk": ci}),
            });
        }
    }
    v
}

pub fn run(u: &mut Universe, b: &Batch, st: &mut Stats) {
    let scs = scenarios();
    let fresh = b.fresh;
    if !fresh {
        if let Err(e) = warm_up(u) {
            st.harness_errors.push(format!("warm-up: {e}"));
            return;
        }
    }
    match b.phase.as_str() {
        "replay" => {
            let case = match Case::from_json(&b.extra["case"]) {
                Some(c) => c,
                None => return,
            };
            let pl = Placement::from_json(&case.extra["placement"]);
            let bj = &case.extra["base"];
            let base = (
                bj["result"].as_str().unwrap_or("").to_string(),
                bj["tree"].as_array().map(|a| a.iter().map(|x| x.as_str().unwrap_or("").to_string()).collect::<Vec<_>>()).unwrap_or_default(),
                bj["ok"].as_bool().unwrap_or(false),
            );
            let mut h = Snap { tree: Vec::new() };
            let out = run_case(u, &case, &mut h, true);
            st.evaluations += 1;
            let name = case.extra["scenario"].as_str().unwrap_or("?").to_string();
            for (clause, detail) in check_run(&case, &out, &h.tree, if bj.is_null() { None } else { Some(&base) }, &pl) {
                let v = mk_violation(&case, &out, "C10", &clause, &name, detail);
                st.violation(&v);
            }
            for l in out.render_trace() {
                crate::sup::diag(&l);
            }
        }
        "probe" | "probe-fresh" => {
            for idx in b.lo..b.hi {
                coord::progress(idx);
                let sc = &scs[idx as usize];
                if fresh && !FRESH_SCENARIOS.contains(&sc.name) {
                    continue;
                }
                let case = scenario_case(sc, &b.uni, fresh, &Placement::None);
                let mut h = Snap { tree: Vec::new() };
                let out = run_case(u, &case, &mut h, true);
                if let Some(e) = &out.harness_error {
                    st.harness_errors.push(format!("probe {}: {e}", sc.name));
                    return;
                }
                let target = sc.ops.len() - 1;
                let pls = placements(&out, target);
                let last = out.records.last();
                let base = json!({"result": last.map(describe_result), "tree": h.tree, "ok": last.map(|r| r.outcome.is_ok())});
                // the fault-free run is itself held to the oracle
                for (clause, detail) in check_run(&case, &out, &h.tree, None, &Placement::None) {
                    let v = mk_violation(&case, &out, "C10", &clause, sc.name, detail);
                    st.violation(&v);
                }
                st.evaluations += 1;
                st.merge_runout(&out);
                st.count("scenarios", 1);
                st.count("placements_total", pls.len() as u64);
                st.notes.push(
                    json!({"uni": b.uni.to_json(), "fresh": fresh, "scenario": idx, "name": sc.name, "trace_len": out.steps,
                           "placements": pls.iter().map(|p| p.to_json()).collect::<Vec<_>>(), "base": base})
                    .to_string(),
                );
                if u.poisoned {
                    return;
                }
            }
        }
        _ => {
            let sc = &scs[b.extra["scenario"].as_u64().unwrap_or(0) as usize];
            let pls: Vec<Placement> = b.extra["placements"].as_array().map(|a| a.iter().map(Placement::from_json).collect()).unwrap_or_default();
            let base = (
                b.extra["base"]["result"].as_str().unwrap_or("").to_string(),
                b.extra["base"]["tree"].as_array().map(|a| a.iter().map(|x| x.as_str().unwrap_or("").to_string()).collect::<Vec<_>>()).unwrap_or_default(),
                b.extra["base"]["ok"].as_bool().unwrap_or(false),
            );
            for idx in b.lo..b.hi {
                coord::progress(idx);
                let pl = &pls[idx as usize];
                let mut case = scenario_case(sc, &b.uni, fresh, pl);
                case.extra["base"] = b.extra["base"].clone();
                let mut h = Snap { tree: Vec::new() };
                let out = run_case(u, &case, &mut h, true);
                if let Some(e) = &out.harness_error {
                    st.harness_errors.push(format!("{} {:?}: {e}", sc.name, pl));
                    return;
                }
                st.evaluations += 1;
                st.merge_runout(&out);
                let fired = !out.faults_fired.is_empty();
                if fired {
                    let mut hh = 0xcbf29ce484222325u64;
                    sys::fnv(&mut hh, format!("{}|{}|{}|{}", b.uni.tag(), fresh, sc.name, pl.to_json()).as_bytes());
                    st.nontrivial.insert(hh);
                } else {
                    st.count("placement_did_not_fire", 1);
                }
                if let Some(r) = out.records.last() {
                    st.count(&format!("outcome.{}", r.outcome.class().split(':').take(2).collect::<Vec<_>>().join(":")), 1);
                }
                for (clause, detail) in check_run(&case, &out, &h.tree, Some(&base), pl) {
                    let v = mk_violation(&case, &out, "C10", &clause, sc.name, detail);
                    st.violation(&v);
                }
                if idx == b.lo && b.extra["chunk"].as_u64() == Some(0) {
                    st.sample(json!({"universe": b.uni.tag(), "first_use": fresh, "scenario": sc.name, "ops": sc.ops.iter().map(|o| o.to_json()).collect::<Vec<_>>(),
                        "placement": pl.to_json(), "outcome": out.records.last().map(|r| r.outcome.class())}));
                }
                if u.poisoned {
                    return;
                }
            }
        }
    }
    let _ = NoHooks;
    let _ = fault_name;
}

pub fn finalise(tier: &str, seed: u64, res: coord::CheckResult, placements_total: u64) -> i32 {
    let mut extra = Map::new();
    extra.insert("enumeration".into(), json!({"scenarios": scenarios().len(), "placements_total": placements_total, "placements_run": res.stats.evaluations}));
    extra.insert("universes".into(), json!(["K", "E", "K first-use", "E first-use"]));
    let exhaustive = tier == "thorough";
    coord::finalise(
        "C10",
        tier,
        seed,
        "fault_enumeration",
        "for every scenario (operation x world x facade) in a K and an E universe, warm and (for a subset) first-use, and warm in a K universe whose mount namespace has no /proc: record the fault-free trace, then one run per (index of a trapped call inside the operation, errno of that call's fault catalogue), one run per descriptor-creating call with EMFILE sticky from there on, two runs per call with ENOMEM / EIO sticky from there on (every later call that can report that errno fails with it / every later call of the same system call does), and k in {1,2,15,16,17,20} consecutive EAGAINs on every openat2; non-trivial = the placed fault actually fired; distinct = distinct (universe, scenario, placement)",
        res,
        extra,
        vec![
            "single faults, sticky EMFILE and EAGAIN runs only; multi-fault sequences are not enumerated here".into(),
            "errnos that describe the state of the tree (ENOENT, EEXIST, ...) are never injected".into(),
            "in the quick tier the first-use enumerations are thinned (every 6th placement); thorough runs all".into(),
        ],
        exhaustive,
        &|b, run| {
            let scs = scenarios();
            if b.phase.starts_with("probe") {
                return Some(scenario_case(&scs[run as usize], &b.uni, b.fresh, &Placement::None));
            }
            let sc = &scs[b.extra["scenario"].as_u64().unwrap_or(0) as usize];
            let pl = Placement::from_json(&b.extra["placements"][run as usize]);
            let mut c = scenario_case(sc, &b.uni, b.fresh, &pl);
            c.extra["base"] = b.extra["base"].clone();
            Some(c)
        },
    )
    .exit_code
}
