//! C16 - C error ids are unique, consumed exactly once, and never look like
//! an errno. Linearizability of the error table against a map model.
use super::*;
use crate::case::{mk_violation, Case};
use crate::coord::{self, Batch, Stats};
use crate::ops::{CreateKind, Op, OpSpec, Outcome};
use crate::rng::{self, Rng};
use crate::sup::{Plan, RunOut, Seeded};
use crate::world::{Entry, WorldSpec};
use serde_json::{json, Map, Value};
use std::collections::{BTreeMap, HashSet};

pub const PER_BATCH: u64 = 250;

pub fn plan(tier: &str, seed: u64) -> Vec<Batch> {
    let (warm, fresh) = match tier {
        "thorough" => (400, 12000u64),
        "dev" => (1, 16),
        _ => (40, 1600),
    };
    let mut v = Vec::new();
    for uni in [UniCfg::k(), UniCfg::e()] {
        for i in 0..warm {
            // every eighth batch in a mount namespace without /proc: the errno and description of a
            // failure must not depend on the library being able to pretty-print descriptors
            let mut u = uni.clone().workers(4);
            if i % 8 == 7 {
                u.proc_opts = "absent".into();
            }
            v.push(Batch { check: "C16".into(), phase: "warm".into(), uni: u, seed, lo: i * PER_BATCH, hi: (i + 1) * PER_BATCH, fresh: false, tier: tier.into(), extra: Value::Null });
        }
        // fresh processes: the error table, the id generator and their
        // entropy are initialised inside the racing calls
        let chunk = 20;
        let mut lo = 0;
        let top = crate::rng::top_of_range_seed();
        while lo < fresh {
            v.push(Batch { check: "C16".into(), phase: "first-use".into(), uni: uni.clone().workers(4), seed, lo, hi: (lo + chunk).min(fresh), fresh: true, tier: tier.into(), extra: json!({"top_seed": top}) });
            lo += chunk;
        }
    }
    // bounded-preemption enumeration of a canonical two-thread history, first use
    for uni in [UniCfg::k(), UniCfg::e()] {
        for dup in [false, true] {
            let total = 400u64; // upper bound on schedules; surplus indices are no-ops
            let chunk = 25;
            let mut lo = 0;
            while lo < total {
                v.push(Batch { check: "C16".into(), phase: "preempt".into(), uni: uni.clone().workers(2), seed, lo, hi: lo + chunk, fresh: true, tier: tier.into(), extra: json!({"dup": dup, "two": tier == "thorough"}) });
                lo += chunk;
            }
        }
    }
    v
}

/// canonical history: both threads fail, consume their own id, and T1 also
/// tries T0's id (a double consume across threads)
pub fn canonical(uni: &UniCfg, dup: bool, script: Vec<crate::sup::Dec>) -> Case {
    let mut c = Case::new("C16", "preempt", uni.clone());
    c.fresh = true;
    let f = |p: &str, slot: usize| {
        let mut o = OpSpec::new(Op::Resolve { path: p.into(), nofollow: false }).c();
        o.keep_id = Some(slot);
        o
    };
    let e = |slot: usize| OpSpec::new(Op::ErrorInfo { idslot: slot }).c();
    c.world = Some(world());
    c.jobs = vec![vec![f("missing-u0x0", 1), e(1), e(2)], vec![f("missing-u1x0", 2), e(1), e(2)]];
    c.extra = json!({"expect": [{"slot": 1, "errno": libc::ENOENT, "marker": "missing-u0x0"}, {"slot": 2, "errno": libc::ENOENT, "marker": "missing-u1x0"}]});
    c.plan.script = script;
    c.plan.dup_entropy = dup;
    c
}

/// schedule number k of the enumeration (None when k is past the end):
/// 0 = T0 then T1; 1 = T1 then T0; then one preemption of T0 at step s, one of
/// T1 at step s; (two) pairs
pub fn schedule(k: u64, two: bool) -> Option<Vec<crate::sup::Dec>> {
    use crate::sup::Dec;
    let n = 60u64; // more than either thread's trace on both backends in a first-use run is cut off by "ignored if not runnable"
    let sw = |step: u64, to: usize| Dec { step: step as usize, switch_to: Some(to), ..Default::default() };
    if k == 0 {
        return Some(vec![]);
    }
    if k == 1 {
        return Some(vec![sw(0, 1)]);
    }
    let k = k - 2;
    if k < n {
        return Some(vec![sw(k + 1, 1)]);
    }
    let k = k - n;
    if k < n {
        return Some(vec![sw(0, 1), sw(k + 1, 0)]);
    }
    let k = k - n;
    if two && k < 280 {
        // a sample of two-preemption schedules
        let s1 = 1 + (k % 20) * 3;
        let s2 = s1 + 1 + (k / 20) * 4;
        return Some(vec![sw(s1, 1), sw(s2, 0)]);
    }
    None
}

pub fn world() -> WorldSpec {
    let mut w = WorldSpec::default();
    w.push(Entry::dir("root/d"));
    w.push(Entry::file("root/file", "f"));
    for i in 0..4 {
        w.push(Entry::link(&format!("root/loop{i}"), &format!("loop{i}")));
    }
    w
}

/// (op, expected errno, unique marker expected inside the description)
pub fn failing_op(rng: &mut Rng, t: usize, k: usize) -> (OpSpec, i32, String) {
    let uniq = format!("u{t}x{k}");
    let (op, errno, marker) = match rng.below(11) {
        0..=2 => (Op::Resolve { path: format!("missing-{uniq}"), nofollow: false }, libc::ENOENT, format!("missing-{uniq}")),
        3 => (Op::Resolve { path: format!("file/sub-{uniq}"), nofollow: false }, libc::ENOTDIR, format!("sub-{uniq}")),
        4 => (Op::Resolve { path: format!("loop{}/{uniq}", rng.below(4)), nofollow: false }, libc::ELOOP, String::new()),
        5 => (Op::Create { path: format!("sock-{uniq}"), kind: CreateKind::RawMknod(libc::S_IFSOCK | 0o600, 0) }, libc::ENOSYS, String::new()),
        6 => (Op::CBadArg { func: "resolve".into(), class: "negfd".into() }, libc::EINVAL, String::new()),
        7 => (Op::RemoveFile { path: format!("d/gone-{uniq}") }, libc::ENOENT, format!("gone-{uniq}")),
        // a detected attack (a procfs lookup that tries to leave procfs through `..`): EXDEV
        9 => (Op::ProcOpen { handle: None, base: crate::ops::Base::SelfP, path: format!("../../esc-{uniq}"), flags: libc::O_RDONLY, follow: false }, libc::EXDEV, String::new()),
        10 => (Op::ProcReadlink { handle: None, base: crate::ops::Base::Root, path: format!("../esc-{uniq}"), bufsz: 64 }, libc::EXDEV, String::new()),
        _ => (Op::MkdirAll { path: format!("d/bad-{uniq}"), mode: 0o10755 }, libc::EINVAL, String::new()),
    };
    (OpSpec::new(op).c(), errno, marker)
}

pub fn gen_case(seed: u64, idx: u64, uni: &UniCfg, fresh: bool) -> Case {
    let mut rng = Rng::new(rng::derive(seed, if fresh { "C16-fresh" } else { "C16" }, idx));
    let mut c = Case::new("C16", if fresh { "first-use" } else { "warm" }, uni.clone());
    c.fresh = fresh;
    let nthreads = rng.range(1, 4) as usize;
    let mut jobs: Vec<Vec<OpSpec>> = vec![Vec::new(); nthreads];
    let mut expect: Vec<Value> = Vec::new();
    let mut slot = 1usize;
    // producers: each failing call keeps its id in its own id-slot
    let per_thread = rng.range(1, 4) as usize;
    for t in 0..nthreads {
        for k in 0..per_thread {
            let (mut o, errno, marker) = failing_op(&mut rng, t, k);
            o.keep_id = Some(slot);
            expect.push(json!({"slot": slot, "errno": errno, "marker": marker}));
            jobs[t].push(o);
            // consumers: by the same or another thread, sometimes twice
            let n_cons = *rng.pick(&[0usize, 1, 1, 1, 2, 2, 3]);
            for _ in 0..n_cons {
                let ct = if rng.chance(1, 2) { t } else { rng.below(nthreads as u64) as usize };
                let e = OpSpec::new(Op::ErrorInfo { idslot: slot }).c();
                if ct == t {
                    jobs[ct].push(e);
                } else {
                    let pos = rng.below(jobs[ct].len() as u64 + 1) as usize;
                    jobs[ct].insert(pos, e);
                }
            }
            slot += 1;
            if slot >= crate::ops::NSLOTS {
                break;
            }
        }
    }
    // consumes of values that never were ids (errno-like, fd-like, boundary),
    // at random positions: they return NULL and must not disturb later calls
    for _ in 0..rng.below(3) {
        let raw = *rng.pick(&[0i32, -1, -2, -22, -18, 3, 7, -4095, -4096, i32::MIN, 1 << 20]);
        let t = rng.below(nthreads as u64) as usize;
        let pos = rng.below(jobs[t].len() as u64 + 1) as usize;
        jobs[t].insert(pos, OpSpec::new(Op::ErrorInfoRaw { id: raw }).c());
    }
    c.world = Some(world());
    c.jobs = jobs;
    c.extra = json!({"expect": expect});
    let pct = if rng.chance(1, 3) { rng.range(1, 3) as usize } else { 0 };
    c.plan = Plan {
        seeded: Some(Seeded { seed: rng.next(), p_switch: *rng.pick(&[100u64, 300, 500, 800]), p_attack: 0, p_fault: 0, max_attacks: 0, pct_depth: pct }),
        dup_entropy: fresh && rng.chance(2, 3),
        ..Default::default()
    };
    c
}

/// payload identity: (errno, unique description marker or "")
type Payload = (i32, String);

#[derive(Clone, Debug)]
enum HOp {
    /// a failing call returned this id and left this payload behind
    Store { id: i32, payload: Payload },
    /// errorinfo(id) returned this payload or NULL
    Consume { id: i32, got: Option<Payload> },
}

#[derive(Clone, Debug)]
struct HEv {
    op: HOp,
    begin: usize,
    end: usize,
    what: String,
}

/// Wing-Gong style search: is there a total order of the operations,
/// consistent with real time (a before b if a ended before b began), that the
/// sequential map model accepts?
fn linearizable(h: &[HEv]) -> bool {
    let n = h.len();
    if n > 26 {
        return true; // bounded
    }
    let mut seen: HashSet<(u32, Vec<(i32, Payload)>)> = HashSet::new();
    fn go(h: &[HEv], done: u32, map: &mut BTreeMap<i32, Payload>, seen: &mut HashSet<(u32, Vec<(i32, Payload)>)>) -> bool {
        let n = h.len();
        if done.count_ones() as usize == n {
            return true;
        }
        let key = (done, map.iter().map(|(a, b)| (*a, b.clone())).collect::<Vec<_>>());
        if !seen.insert(key) {
            return false;
        }
        // minimal elements: ops not done whose every real-time predecessor is done
        for i in 0..n {
            if done & (1 << i) != 0 {
                continue;
            }
            let blocked = (0..n).any(|j| j != i && done & (1 << j) == 0 && h[j].end < h[i].begin);
            if blocked {
                continue;
            }
            match &h[i].op {
                HOp::Store { id, payload } => {
                    if map.contains_key(id) {
                        continue; // a store must return an id that is not in use
                    }
                    map.insert(*id, payload.clone());
                    if go(h, done | (1 << i), map, seen) {
                        return true;
                    }
                    map.remove(id);
                }
                HOp::Consume { id, got } => {
                    let cur = map.get(id).cloned();
                    if cur != *got {
                        continue;
                    }
                    if let Some(p) = cur {
                        map.remove(id);
                        if go(h, done | (1 << i), map, seen) {
                            return true;
                        }
                        map.insert(*id, p);
                    } else if go(h, done | (1 << i), map, seen) {
                        return true;
                    }
                }
            }
        }
        false
    }
    let mut map = BTreeMap::new();
    go(h, 0, &mut map, &mut seen)
}

pub fn eval(case: &Case, out: &RunOut, st: &mut Stats) {
    let expect: Vec<(usize, i32, String)> = case.extra["expect"]
        .as_array()
        .map(|a| a.iter().map(|e| (e["slot"].as_u64().unwrap_or(0) as usize, e["errno"].as_i64().unwrap_or(0) as i32, e["marker"].as_str().unwrap_or("").to_string())).collect())
        .unwrap_or_default();
    let mut hist: Vec<HEv> = Vec::new();
    let mut problems: Vec<(String, String)> = Vec::new();
    for r in &out.records {
        match (&r.spec.op, &r.outcome) {
            (Op::ErrorInfo { .. } | Op::ErrorInfoRaw { .. }, Outcome::Info(id, res)) => {
                let got: Option<Payload> = res.as_ref().map(|(errno, desc)| {
                    let marker = expect.iter().map(|(_, _, m)| m).find(|m| !m.is_empty() && desc.contains(m.as_str())).cloned().unwrap_or_default();
                    (*errno as i32, marker)
                });
                hist.push(HEv { op: HOp::Consume { id: *id, got }, begin: r.begin_step, end: r.end_step, what: format!("T{} errorinfo({id}) -> {:?}", r.thread, res.as_ref().map(|x| x.0)) });
            }
            (_, Outcome::CErrKept { id }) => {
                if *id > -4096 {
                    problems.push(("id-looks-like-errno".into(), format!("{} returned {id}, which is not below -4095", r.spec.name())));
                }
                let slot = r.spec.keep_id.unwrap_or(0);
                let payload: Payload = expect.iter().find(|(s, _, _)| *s == slot).map(|(_, e, m)| (*e, m.clone())).unwrap_or((0, String::new()));
                hist.push(HEv { op: HOp::Store { id: *id, payload }, begin: r.begin_step, end: r.end_step, what: format!("T{} {} -> id {id}", r.thread, r.spec.name()) });
            }
            (_, Outcome::Panic(m)) => problems.push(("panic".into(), m.clone())),
            (op, o) => {
                if r.spec.keep_id.is_some() {
                    problems.push(("failing-call-did-not-fail".into(), format!("{op:?} returned {o:?}")));
                }
            }
        }
    }
    let total: usize = case.jobs.iter().map(|j| j.len()).sum();
    if out.records.len() < total && out.harness_error.is_none() {
        problems.push(("call-did-not-return".into(), format!("{} of {total} calls returned (deadlock={}, hang={})", out.records.len(), out.deadlock, out.hang)));
    }
    // ids not yet consumed are pairwise different: follows from the model
    // (a store of an id that is in the map is rejected), checked by the search
    if !linearizable(&hist) {
        let mut lines: Vec<String> = hist.iter().map(|e| format!("[{}..{}] {}", e.begin, e.end, e.what)).collect();
        lines.sort();
        problems.push(("not-linearizable".into(), format!("no sequential order of the error table operations explains this history: {lines:?}")));
    }
    st.evaluations += 1;
    st.count("history.ops", hist.len() as u64);
    st.count("history.stores", hist.iter().filter(|e| matches!(e.op, HOp::Store { .. })).count() as u64);
    st.count("history.consumes_hit", hist.iter().filter(|e| matches!(e.op, HOp::Consume { got: Some(_), .. })).count() as u64);
    st.count("history.consumes_null", hist.iter().filter(|e| matches!(e.op, HOp::Consume { got: None, .. })).count() as u64);
    // id collisions retried (visible as duplicate ids across the run, legal when the first was consumed)
    let mut ids: Vec<i32> = hist.iter().filter_map(|e| if let HOp::Store { id, .. } = e.op { Some(id) } else { None }).collect();
    ids.sort();
    let dup = ids.windows(2).filter(|w| w[0] == w[1]).count();
    st.count("probe.same_id_reused_after_consume", dup as u64);
    if case.plan.dup_entropy {
        st.count("runs_with_duplicated_entropy", 1);
    }
    if case.plan.seed_entropy.is_some() {
        st.count("runs_with_top_of_range_entropy", 1);
        // how close to the limit did the ids get?
        if let Some(m) = hist.iter().filter_map(|e| if let HOp::Store { id, .. } = e.op { Some(id) } else { None }).max() {
            if m > -4096 - 4096 {
                st.count("probe.id_within_4096_of_the_limit", 1);
            }
        }
    }
    st.merge_runout(out);
    if case.jobs.len() > 1 && out.switches > 0 {
        let mut hh = case.hash();
        sys::fnv(&mut hh, &out.interleaving_hash.to_le_bytes());
        st.nontrivial.insert(hh);
    }
    let mut seen = std::collections::BTreeSet::new();
    for (clause, detail) in problems {
        if seen.insert(clause.clone()) {
            let v = mk_violation(case, out, "C16", &clause, "errors", detail);
            st.violation(&v);
        }
    }
    for f in &out.findings {
        let v = mk_violation(case, out, "C16", &f.clause, "errors", f.detail.clone());
        st.violation(&v);
    }
}

pub fn run(u: &mut Universe, b: &Batch, st: &mut Stats) {
    if !b.fresh {
        if let Err(e) = warm_up(u) {
            st.harness_errors.push(format!("warm-up: {e}"));
            return;
        }
    }
    for idx in b.lo..b.hi {
        coord::progress(idx);
        let case = if b.phase == "replay" {
            match Case::from_json(&b.extra["case"]) {
                Some(c) => c,
                None => return,
            }
        } else if b.phase == "preempt" {
            match schedule(idx, b.extra["two"].as_bool().unwrap_or(false)) {
                Some(s) => {
                    st.count("preempt.schedules_run", 1);
                    canonical(&b.uni, b.extra["dup"].as_bool().unwrap_or(false), s)
                }
                None => continue,
            }
        } else {
            let mut c = gen_case(b.seed, idx, &b.uni, b.fresh);
            // every fourth first-use history: adversarial entropy - the id
            // generator's first draw lands at the very top of its range
            if b.fresh && idx % 4 == 3 {
                if let Some(t) = b.extra["top_seed"].as_str() {
                    c.plan.seed_entropy = Some(t.to_string());
                    c.plan.dup_entropy = false;
                }
            }
            c
        };
        for i in 0..crate::ops::NSLOTS {
            crate::ops::IDSLOTS[i].store(0, std::sync::atomic::Ordering::SeqCst);
        }
        let out = run_case(u, &case, &mut crate::sup::NoHooks, false);
        if let Some(e) = &out.harness_error {
            st.harness_errors.push(format!("{}: {e}", case.phase));
            return;
        }
        eval(&case, &out, st);
        if idx == b.lo {
            st.sample(json!({"universe": b.uni.tag(), "phase": case.phase, "dup_entropy": case.plan.dup_entropy,
                "history": out.records.iter().map(|r| format!("[{}..{}] T{} {} -> {}", r.begin_step, r.end_step, r.thread, r.spec.name(), match &r.outcome { Outcome::CErrKept { id } => format!("id {id}"), Outcome::Info(id, x) => format!("info({id})={:?}", x.as_ref().map(|y| y.0)), o => o.class() })).collect::<Vec<_>>()}));
        }
        if u.poisoned {
            return;
        }
    }
}

pub fn finalise(tier: &str, seed: u64, res: coord::CheckResult) -> i32 {
    coord::finalise(
        "C16",
        tier,
        seed,
        "exploration",
        "one evaluation = one history of 1-4 caller threads x failing C calls of every error kind (each keeping its id) and pathrs_errorinfo calls on ids produced by the same or another thread (some twice, some for ids that never existed), scheduled at system-call granularity by a seeded scheduler; invoke/return are stamped with the global step counter; the history is checked for linearizability against the map model (store returns an id not in the map; consume returns and removes the payload or NULL) by a Wing-Gong search, plus range (< -4095) and payload attribution (errno, unique description marker); first-use histories run in fresh processes, two thirds of them with identical entropy delivered to all threads; non-trivial = a multi-thread history with at least one context switch away from the default order; distinct = hash of (case, interleaving)",
        res,
        Map::new(),
        vec![
            "preemption only at trapped system calls: the critical section of the table is entered and left without one, except on first use (getrandom) and under contention (futex), both of which are scheduling points".into(),
            "histories are bounded to 26 operations for the linearizability search".into(),
        ],
        false,
        &|b, run| {
            if b.phase == "preempt" {
                schedule(run, b.extra["two"].as_bool().unwrap_or(false)).map(|s| canonical(&b.uni, b.extra["dup"].as_bool().unwrap_or(false), s))
            } else {
                Some(gen_case(b.seed, run, &b.uni, b.fresh))
            }
        },
    )
    .exit_code
}
