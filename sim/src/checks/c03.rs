//! C03 - mutating Root operations never touch anything outside the root.
use super::attack::{self, Attacker};
use super::*;
use crate::case::{mk_violation, Case};
use crate::coord::{self, Batch, Stats};
use crate::gen;
use crate::ops::{CreateKind, Facade, Op, OpSpec, Outcome};
use crate::rng::{self, Rng};
use crate::sup::{Dec, Plan, RunOut, Seeded};
use crate::world::WorldSpec;
use serde_json::{json, Map, Value};

pub const PER_BATCH: u64 = 250;

pub fn plan(tier: &str, seed: u64) -> Vec<Batch> {
    let (quiet, swarm) = match tier {
        "thorough" => (200, 300),
        "dev" => (1, 1),
        _ => (12, 12),
    };
    let mut v = Vec::new();
    let nops = attack::race_mutating_ops().len() as u64;
    let nm = (attack::race_mutations().len() + attack::race_compound().len()) as u64;
    for uni in [UniCfg::e(), UniCfg::k()] {
        for i in 0..nops {
            v.push(Batch { check: "C03".into(), phase: "enum".into(), uni: uni.clone(), seed, lo: i * nm, hi: (i + 1) * nm, fresh: false, tier: tier.into(), extra: Value::Null });
        }
        for i in 0..quiet {
            v.push(Batch { check: "C03".into(), phase: "quiescent".into(), uni: uni.clone(), seed, lo: i * PER_BATCH, hi: (i + 1) * PER_BATCH, fresh: false, tier: tier.into(), extra: Value::Null });
        }
        // a caller thread with a private descriptor table (unshare(CLONE_FILES)) while the rest of the
        // process holds directories outside the root at the numbers the library's descriptors will get
        v.push(Batch { check: "C03".into(), phase: "private-table".into(), uni: uni.clone(), seed, lo: 0, hi: private_cases().len() as u64, fresh: false, tier: tier.into(), extra: Value::Null });
        for i in 0..swarm {
            v.push(Batch { check: "C03".into(), phase: "swarm".into(), uni: uni.clone(), seed, lo: i * PER_BATCH, hi: (i + 1) * PER_BATCH, fresh: false, tier: tier.into(), extra: Value::Null });
        }
    }
    v
}

pub fn private_cases() -> Vec<(&'static str, bool)> {
    let mut v = Vec::new();
    for p in ["pt-new/sub", "a/b/pt-x/y", "a/lnk/pt-z", "pt-one", "a/b/c/d/../pt-w/q"] {
        for c in [false, true] {
            v.push((p, c));
        }
    }
    v
}

fn run_private(u: &mut Universe, b: &Batch, idx: u64, st: &mut Stats) -> bool {
    let case = if b.phase == "replay" {
        match Case::from_json(&b.extra["case"]) {
            Some(c) => c,
            None => return false,
        }
    } else {
        let (path, cfac) = private_cases()[idx as usize % private_cases().len()];
        let mut case = Case::new("C03", "private-table", b.uni.clone());
        case.world = Some(attack::race_world());
        let mut o = OpSpec::new(Op::MkdirAllPrivateTable { path: path.into(), mode: 0o755 });
        if cfac {
            o = o.c();
        }
        case.jobs = vec![vec![o]];
        case
    };
    let out = run_case(u, &case, &mut crate::sup::NoHooks, false);
    u.poisoned = true; // the caller keeps its private table: this universe runs nothing else
    if let Some(e) = &out.harness_error {
        st.harness_errors.push(format!("private-table {idx}: {e}"));
        return false;
    }
    st.evaluations += 1;
    st.merge_runout(&out);
    st.nontrivial.insert(case.hash());
    if let Some(rec) = out.records.first() {
        st.count(&format!("private.outcome.{}", rec.outcome.class().split(':').take(3).collect::<Vec<_>>().join(":")), 1);
        if std::env::var_os("DBG_C03").is_some() {
            eprintln!("DBG {} {:?} => {:?}", case.uni.tag(), case.jobs[0][0].to_json().to_string(), rec.outcome);
        }
        let found = match &rec.outcome {
            Outcome::Harness(1) => Some(("returned-never-inside:private-descriptor-table", "mkdir_all called from a thread with a private descriptor table returned a handle outside the root (the thread-group leader holds a directory outside the root at the same descriptor numbers)".to_string())),
            Outcome::Harness(2) => Some(("outside-changed:private-descriptor-table", "mkdir_all called from a thread with a private descriptor table created its directories in a directory outside the root that the thread-group leader holds at the same descriptor number".to_string())),
            Outcome::Harness(-2) => {
                st.harness_errors.push(format!("private-table {idx}: set-up failed"));
                return false;
            }
            Outcome::Panic(m) => Some(("panic", m.clone())),
            _ => None,
        };
        if let Some((clause, detail)) = found {
            let v = mk_violation(&case, &out, "C03", clause, "mkdir_all", detail);
            st.violation(&v);
        }
    }
    true
}

/// A mutating operation with adversarial path spellings.
pub fn gen_mut_op(rng: &mut Rng, spec: &WorldSpec, alphabet: usize) -> OpSpec {
    let existing = |rng: &mut Rng| -> String {
        if rng.chance(1, 4) {
            gen::gen_path(rng, spec, alphabet)
        } else {
            let e = gen::inroot_paths(spec);
            if e.is_empty() {
                "a".into()
            } else {
                let mut p = rng.pick(&e).0.clone();
                match rng.below(12) {
                    0 => p.push_str("/.."),
                    1 => p.push_str("/."),
                    2 => p.push('/'),
                    3 => p = format!("/{p}"),
                    4 => p = format!("../{p}"),
                    _ => {}
                }
                p
            }
        }
    };
    let special = |rng: &mut Rng| -> String { (*rng.pick(&["..", ".", "a/..", "../..", "/", "/..", "", "./..", "a/../..", "../outside", "../secret"])).to_string() };
    let newp = |rng: &mut Rng| -> String {
        if rng.chance(1, 10) {
            special(rng)
        } else {
            gen::gen_new_path(rng, spec, alphabet)
        }
    };
    let victim = |rng: &mut Rng| -> String {
        if rng.chance(1, 10) {
            special(rng)
        } else {
            existing(rng)
        }
    };
    let op = match rng.below(16) {
        0 => Op::Create { path: newp(rng), kind: CreateKind::File(0o644) },
        1 => Op::Create { path: newp(rng), kind: CreateKind::Dir(0o755) },
        2 => Op::Create { path: newp(rng), kind: CreateKind::Symlink((*rng.pick(&["../../outside/secret", "/mnt/w/secret", "x", ".."])).to_string()) },
        3 => Op::Create { path: newp(rng), kind: CreateKind::Hardlink(victim(rng)) },
        4 => Op::Create { path: newp(rng), kind: CreateKind::Fifo(0o600) },
        5 | 6 => Op::CreateFile {
            path: newp(rng),
            flags: libc::O_NONBLOCK | *rng.pick(&[libc::O_RDWR, libc::O_WRONLY | libc::O_TRUNC, libc::O_RDONLY, libc::O_PATH, libc::O_RDWR | libc::O_EXCL, libc::O_WRONLY | libc::O_APPEND]),
            mode: 0o644,
        },
        7 | 8 => Op::MkdirAll { path: if rng.chance(1, 2) { newp(rng) } else { format!("{}/n1/n2", victim(rng)) }, mode: *rng.pick(&[0o755u32, 0o700, 0o1777]) },
        9 => Op::RemoveFile { path: victim(rng) },
        10 => Op::RemoveDir { path: victim(rng) },
        11 | 12 => Op::RemoveAll { path: victim(rng) },
        _ => Op::Rename { src: victim(rng), dst: if rng.chance(1, 2) { newp(rng) } else { victim(rng) }, flags: *rng.pick(&[0u32, 0, 1, 2]) },
    };
    let mut s = OpSpec::new(op);
    if rng.chance(1, 3) {
        s.facade = Facade::C;
    } else if rng.chance(1, 6) {
        s.no_symlinks = true;
    }
    // "every path argument": through the Rust facade that includes byte
    // strings with an embedded NUL (a C string ends there, a Path does not)
    if s.facade == Facade::Rust && rng.chance(1, 25) {
        let nul = |p: &mut String, rng: &mut Rng| {
            let v = *rng.pick(&["..\0x", ".\0x", "a/..\0", "..\0/..", "a\0/../..", "\0", "../..\0y"]);
            *p = if rng.chance(1, 2) || p.is_empty() { v.replace("\\0", "\0") } else { format!("{p}/{}", v.replace("\\0", "\0")) };
        };
        match &mut s.op {
            Op::Create { path, .. } | Op::CreateFile { path, .. } | Op::MkdirAll { path, .. } | Op::RemoveFile { path } | Op::RemoveDir { path } | Op::RemoveAll { path } => nul(path, rng),
            Op::Rename { src, dst, .. } => {
                if rng.chance(1, 2) {
                    nul(src, rng)
                } else {
                    nul(dst, rng)
                }
            }
            _ => {}
        }
    }
    s
}

pub fn gen_case(seed: u64, idx: u64, uni: &UniCfg, attacked: bool) -> Case {
    let mut rng = Rng::new(rng::derive(seed, if attacked { "C03-swarm" } else { "C03-quiet" }, idx));
    let mut c = Case::new("C03", if attacked { "swarm" } else { "quiescent" }, uni.clone());
    let race = attacked && rng.chance(1, 3);
    let (world, ops): (WorldSpec, Vec<OpSpec>) = if race {
        let l = attack::race_mutating_ops();
        (attack::race_world(), (0..3).map(|_| rng.pick(&l).clone()).collect())
    } else {
        let mut wp = gen::WorldParams::swarm(&mut rng);
        wp.depth = rng.range(2, 4) as usize;
        let w = gen::gen_world(&mut rng, &wp);
        let n = if attacked { 3 } else { 5 };
        let ops = (0..n).map(|_| gen_mut_op(&mut rng, &w, wp.alphabet)).collect();
        (w, ops)
    };
    c.world = Some(world);
    c.jobs = vec![ops];
    if attacked {
        let p_attack = if uni.no_openat2 { *rng.pick(&[20u64, 50, 100]) } else { *rng.pick(&[100u64, 250, 500]) };
        c.plan = Plan { seeded: Some(Seeded { seed: rng.next(), p_switch: 0, p_attack, p_fault: 0, max_attacks: rng.range(1, 6) as usize, pct_depth: 0 }), ..Default::default() };
    }
    c.extra = json!({"race_world": race});
    c
}

fn path_of(op: &Op) -> String {
    match op {
        Op::Create { path, .. } | Op::CreateFile { path, .. } | Op::MkdirAll { path, .. } | Op::RemoveFile { path } | Op::RemoveDir { path } | Op::RemoveAll { path } => path.clone(),
        Op::Rename { src, dst, .. } => format!("{src} -> {dst}"),
        _ => String::new(),
    }
}

fn ends_in_dots(p: &str) -> bool {
    let t = p.trim_end_matches('/');
    let last = t.rsplit('/').next().unwrap_or("");
    last == ".." || last == "."
}

/// Narrow clause names for the documented defects, so that known findings /
/// fixed entries are matched exactly and anything else is still reported.
fn refine(clause: &str, detail: &str, case: &Case, out: &RunOut, step: usize) -> String {
    // which op was running at that step?
    let rec = out.records.iter().find(|r| r.begin_step <= step && step <= r.end_step);
    if let Some(r) = rec {
        let p = path_of(&r.spec.op);
        match &r.spec.op {
            Op::RemoveAll { .. } if ends_in_dots(&p) => return format!("{clause}:remove_all-final-dotdot"),
            Op::CreateFile { flags, .. } if ends_in_dots(&p) && flags & libc::O_PATH != 0 => return format!("{clause}:create_file-opath-final-dotdot"),
            _ => {}
        }
    }
    let _ = (detail, case);
    clause.to_string()
}

fn eval(case: &Case, out: &mut RunOut, atk: &Attacker, st: &mut Stats) {
    attack::probes(out);
    st.merge_runout(out);
    for r in &out.records {
        st.evaluations += 1;
        st.count(&format!("outcome.{}.{}", r.spec.name(), r.outcome.class().split(':').next().unwrap_or("")), 1);
        let nt = if case.phase == "quiescent" { r.end_step - r.begin_step > 2 } else { r.attacks_inside > 0 };
        if nt {
            let mut hh = case.hash();
            sys::fnv(&mut hh, format!("{}|{:?}", r.idx, out.decisions.iter().filter(|d| d.step >= r.begin_step && d.step <= r.end_step).map(|d| d.to_json().to_string()).collect::<Vec<_>>()).as_bytes());
            st.nontrivial.insert(hh);
        }
    }
    let mut seen = std::collections::BTreeSet::new();
    for (i, d) in &atk.escaped {
        let r = out.records.iter().find(|r| r.idx == *i);
        let step = r.map(|r| r.end_step).unwrap_or(0);
        let clause = refine("returned-never-inside", d, case, out, step);
        if seen.insert(clause.clone()) {
            let v = mk_violation(case, out, "C03", &clause, case.jobs[0][*i].name(), d.clone());
            st.violation(&v);
        }
    }
    for (clause, detail, step) in attack::seam_containment(out, false, true) {
        let clause = refine(&clause, &detail, case, out, step);
        let opn = out.records.iter().find(|r| r.begin_step <= step && step <= r.end_step).map(|r| r.spec.name()).unwrap_or("op");
        if seen.insert(format!("{clause}/{opn}")) {
            let v = mk_violation(case, out, "C03", &clause, opn, detail);
            st.violation(&v);
        }
    }
    let fs: Vec<_> = out.findings.iter().filter(|f| f.clause == "outside-changed").cloned().collect();
    for f in fs {
        let clause = refine("outside-changed", &f.detail, case, out, f.step);
        let opn = out.records.iter().find(|r| r.begin_step <= f.step && f.step <= r.end_step).map(|r| r.spec.name()).unwrap_or("op");
        if seen.insert(format!("{clause}/{opn}")) {
            let v = mk_violation(case, out, "C03", &clause, opn, f.detail.clone());
            st.violation(&v);
        }
    }
}

fn lib_windows(out: &RunOut, op: usize) -> Vec<usize> {
    out.trace.iter().filter(|e| e.lib && e.op == Some(op) && e.nr != crate::seam::HYPERCALL_NR && e.nr != libc::SYS_futex).map(|e| e.step).collect()
}

pub fn enum_case(uni: &UniCfg, oi: usize, script: Vec<Dec>) -> Case {
    let mut c = Case::new("C03", "enum", uni.clone());
    c.world = Some(attack::race_world());
    c.jobs = vec![vec![attack::race_mutating_ops()[oi].clone()]];
    c.plan.script = script;
    c
}

/// host sentinels: nothing on the host may change (size, mtime, inode)
fn sentinels() -> Vec<(u64, i64, i64)> {
    ["/etc/passwd", "/etc", "/usr", "/root"]
        .iter()
        .map(|p| sys::lstat(p.as_bytes()).map(|s| (s.st_ino, s.st_size, s.st_mtime * 1_000_000_000 + s.st_mtime_nsec)).unwrap_or((0, 0, 0)))
        .collect()
}

pub fn run(u: &mut Universe, b: &Batch, st: &mut Stats) {
    if let Err(e) = warm_up(u) {
        st.harness_errors.push(format!("warm-up: {e}"));
        return;
    }
    let muts = attack::race_mutations();
    let compound = attack::race_compound();
    let nm = (muts.len() + compound.len()) as u64;
    let sent0 = sentinels();
    for idx in b.lo..b.hi {
        coord::progress(idx);
        match b.phase.as_str() {
            "private-table" => {
                // (the caller keeps its private table; the remaining cases of this batch run in the
                // same universe, nothing else does)
                if !run_private(u, b, idx, st) {
                    return;
                }
                continue;
            }
            "replay" if b.extra["case"]["phase"].as_str() == Some("private-table") => {
                run_private(u, b, idx, st);
            }
            "replay" => {
                let case = match Case::from_json(&b.extra["case"]) {
                    Some(c) => c,
                    None => return,
                };
                let w = case.world.clone().unwrap_or_default();
                let mut atk = Attacker::new(&w);
                let mut out = run_case(u, &case, &mut atk, true);
                eval(&case, &mut out, &atk, st);
                for l in out.render_trace() {
                    crate::sup::diag(&l);
                }
            }
            "quiescent" | "swarm" => {
                let attacked = b.phase == "swarm";
                let case = gen_case(b.seed, idx, &b.uni, attacked);
                let w = case.world.clone().unwrap();
                let mut atk = Attacker::new(&w);
                if case.extra["race_world"].as_bool() == Some(true) {
                    atk.catalogue = Some(muts.clone());
                    atk.compound = attack::race_compound();
                }
                let mut out = run_case(u, &case, &mut atk, true);
                if let Some(e) = &out.harness_error {
                    st.harness_errors.push(format!("{} {idx}: {e}", b.phase));
                    return;
                }
                eval(&case, &mut out, &atk, st);
                if idx == b.lo {
                    st.sample(json!({"phase": b.phase, "universe": b.uni.tag(), "case": case.with_explicit(&out.decisions).to_json(), "outcomes": out.records.iter().map(|r| r.outcome.class()).collect::<Vec<_>>()}));
                }
            }
            _ => {
                let oi = (idx / nm) as usize;
                let mi = (idx % nm) as usize;
                let w = attack::race_world();
                let base = enum_case(&b.uni, oi, vec![]);
                let mut atk = Attacker::new(&w);
                let out0 = run_case(u, &base, &mut atk, true);
                if let Some(e) = &out0.harness_error {
                    st.harness_errors.push(format!("enum {idx}: {e}"));
                    return;
                }
                let wins = lib_windows(&out0, 0);
                for &wd in &wins {
                    let atk_ops = if mi < muts.len() { vec![muts[mi].0.clone()] } else { compound[mi - muts.len()].clone() };
                    let case = enum_case(&b.uni, oi, vec![Dec { step: wd, attack: atk_ops, ..Default::default() }]);
                    let mut atk = Attacker::new(&w);
                    let mut out = run_case(u, &case, &mut atk, true);
                    if let Some(e) = &out.harness_error {
                        st.harness_errors.push(format!("enum {idx}@{wd}: {e}"));
                        return;
                    }
                    st.count("enum.windows_covered", 1);
                    eval(&case, &mut out, &atk, st);
                    if u.poisoned {
                        return;
                    }
                }
                st.count("enum.scenarios", 1);
            }
        }
        if u.poisoned {
            return;
        }
    }
    if sentinels() != sent0 {
        st.harness_errors.push("host sentinel changed during the batch (something outside the world area was modified)".into());
    }
}

pub fn finalise(tier: &str, seed: u64, res: coord::CheckResult) -> i32 {
    let mut extra = Map::new();
    let c = &res.stats.counters;
    extra.insert("enumeration".into(), json!({"scenario_x_mutation_pairs": c.get("enum.scenarios"), "windows_covered": c.get("enum.windows_covered")}));
    coord::finalise(
        "C03",
        tier,
        seed,
        "exploration",
        "one evaluation = one mutating operation (create*, create_file, mkdir_all, remove_*, rename; Rust or C facade) on a generated or race world; phases: quiescent (any change outside the root is a violation), exhaustive single attacker placement on the race world (operation x catalogue mutation x window), seeded swarm; oracles: chained outside snapshots around every attacker mutation, parent-directory label of every mutating system call at the seam, label of the returned descriptor; non-trivial = (quiescent) the operation made more than two trapped calls / (attacked) an attacker mutation took effect inside the operation; distinct = hash of (world, ops, explicit decisions)",
        res,
        extra,
        vec![
            "directories the attacker moved out of the root keep their inside lineage: continuing to work inside them is not a violation".into(),
            "transient O_PATH descriptors of the emulated walk are not held to the returned-descriptor clause".into(),
        ],
        false,
        &|b, run| match b.phase.as_str() {
            "swarm" => Some(gen_case(b.seed, run, &b.uni, true)),
            "quiescent" => Some(gen_case(b.seed, run, &b.uni, false)),
            _ => None,
        },
    )
    .exit_code
}
