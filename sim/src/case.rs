//! A case = everything that decides one simulated run: universe
//! configuration, world, operations per caller thread, and the plan
//! (seed + explicit decisions). It is also the replay file format.
#![allow(dead_code)]

use crate::ops::OpSpec;
use crate::sup::{Dec, Plan, RunOut, UniCfg};
use crate::world::WorldSpec;
use serde_json::{json, Value};

#[derive(Clone, Debug, PartialEq)]
pub struct Case {
    pub check: String,
    pub phase: String,
    pub uni: UniCfg,
    /// run in a universe whose process-wide lazies are untouched
    pub fresh: bool,
    pub world: Option<WorldSpec>,
    pub jobs: Vec<Vec<OpSpec>>,
    pub plan: Plan,
    pub umask: u32,
    pub extra: Value,
}

impl Case {
    pub fn new(check: &str, phase: &str, uni: UniCfg) -> Case {
        Case { check: check.into(), phase: phase.into(), uni, fresh: false, world: None, jobs: Vec::new(), plan: Plan::default(), umask: 0o022, extra: Value::Null }
    }
    pub fn to_json(&self) -> Value {
        json!({
            "property": self.check,
            "phase": self.phase,
            "universe": self.uni.to_json(),
            "fresh": self.fresh,
            "world": self.world.as_ref().map(|w| w.to_json()),
            "ops": self.jobs.iter().map(|j| j.iter().map(|o| o.to_json()).collect::<Vec<_>>()).collect::<Vec<_>>(),
            "plan": self.plan.to_json(),
            "umask": self.umask,
            "extra": self.extra,
        })
    }
    pub fn from_json(v: &Value) -> Option<Case> {
        Some(Case {
            check: v["property"].as_str()?.to_string(),
            phase: v["phase"].as_str().unwrap_or("").to_string(),
            uni: UniCfg::from_json(&v["universe"]),
            fresh: v["fresh"].as_bool().unwrap_or(false),
            world: v.get("world").filter(|w| !w.is_null()).map(WorldSpec::from_json),
            jobs: v["ops"].as_array()?.iter().map(|j| j.as_array().map(|a| a.iter().filter_map(OpSpec::from_json).collect()).unwrap_or_default()).collect(),
            plan: Plan::from_json(&v["plan"]),
            umask: v["umask"].as_u64().unwrap_or(0o022) as u32,
            extra: v.get("extra").cloned().unwrap_or(Value::Null),
        })
    }
    /// The same case with the decisions that were actually taken made explicit
    /// (so that a replay does not depend on the PRNG).
    pub fn with_explicit(&self, taken: &[Dec]) -> Case {
        let mut c = self.clone();
        if let Some(s) = c.plan.seeded.as_mut() {
            // keep the seed (entropy stream) but take no random decisions
            s.p_switch = 0;
            s.p_attack = 0;
            s.p_fault = 0;
            s.pct_depth = 0;
        }
        c.plan.script = taken.to_vec();
        c
    }
    pub fn hash(&self) -> u64 {
        let mut h = 0xcbf29ce484222325u64;
        crate::sys::fnv(&mut h, self.to_json().to_string().as_bytes());
        h
    }
}

#[derive(Clone, Debug)]
pub struct Violation {
    pub property: String,
    pub clause: String,
    pub op: String,
    pub detail: String,
    pub case: Case,
    pub trace: Vec<String>,
}

impl Violation {
    pub fn signature(&self) -> String {
        format!("{}/{}/{}", self.property, self.clause, self.op)
    }
    pub fn to_json(&self) -> Value {
        let mut c = self.case.to_json();
        c["expect"] = json!({"violation": true, "signature": self.signature(), "detail": self.detail});
        c["trace"] = json!(self.trace);
        c
    }
}

pub fn mk_violation(case: &Case, out: &RunOut, property: &str, clause: &str, op: &str, detail: String) -> Violation {
    Violation {
        property: property.into(),
        clause: clause.into(),
        op: op.into(),
        detail,
        case: case.with_explicit(&out.decisions),
        trace: out.render_trace(),
    }
}
