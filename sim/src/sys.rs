//! Raw system-call helpers used by the *harness* (coordinator / supervisor).
//! None of this is libpathrs code; it is the independent side of every oracle.
#![allow(dead_code)]

use std::ffi::CString;
use std::os::unix::io::RawFd;

pub fn errno() -> i32 {
    unsafe { *libc::__errno_location() }
}

pub fn cstr(b: &[u8]) -> CString {
    let cut = b.iter().position(|&c| c == 0).unwrap_or(b.len());
    CString::new(&b[..cut]).unwrap()
}

pub fn errname(e: i32) -> &'static str {
    match e {
        0 => "OK",
        libc::EPERM => "EPERM",
        libc::ENOENT => "ENOENT",
        libc::EINTR => "EINTR",
        libc::EIO => "EIO",
        libc::EBADF => "EBADF",
        libc::EAGAIN => "EAGAIN",
        libc::ENOMEM => "ENOMEM",
        libc::EACCES => "EACCES",
        libc::EBUSY => "EBUSY",
        libc::EEXIST => "EEXIST",
        libc::EXDEV => "EXDEV",
        libc::ENOTDIR => "ENOTDIR",
        libc::EISDIR => "EISDIR",
        libc::EINVAL => "EINVAL",
        libc::ENFILE => "ENFILE",
        libc::EMFILE => "EMFILE",
        libc::ENOSPC => "ENOSPC",
        libc::EROFS => "EROFS",
        libc::EMLINK => "EMLINK",
        libc::ENAMETOOLONG => "ENAMETOOLONG",
        libc::ENOSYS => "ENOSYS",
        libc::ENOTEMPTY => "ENOTEMPTY",
        libc::ELOOP => "ELOOP",
        libc::EDQUOT => "EDQUOT",
        libc::ENXIO => "ENXIO",
        libc::EOPNOTSUPP => "EOPNOTSUPP",
        libc::ETXTBSY => "ETXTBSY",
        libc::EFBIG => "EFBIG",
        libc::ENODEV => "ENODEV",
        libc::ESRCH => "ESRCH",
        libc::EFAULT => "EFAULT",
        libc::EOVERFLOW => "EOVERFLOW",
        _ => "E?",
    }
}

pub fn errnum(name: &str) -> Option<i32> {
    for e in 1..140 {
        if errname(e) == name {
            return Some(e);
        }
    }
    None
}

#[repr(C)]
#[derive(Default, Clone, Copy)]
pub struct OpenHow {
    pub flags: u64,
    pub mode: u64,
    pub resolve: u64,
}

pub const RESOLVE_NO_XDEV: u64 = 0x01;
pub const RESOLVE_NO_MAGICLINKS: u64 = 0x02;
pub const RESOLVE_NO_SYMLINKS: u64 = 0x04;
pub const RESOLVE_BENEATH: u64 = 0x08;
pub const RESOLVE_IN_ROOT: u64 = 0x10;

/// Raw openat2 issued by the harness itself; EAGAIN is retried without bound
/// (interference from renames elsewhere on the machine is not an answer).
pub fn openat2(dirfd: RawFd, path: &[u8], flags: u64, mode: u64, resolve: u64) -> Result<RawFd, i32> {
    let p = cstr(path);
    let how = OpenHow { flags: flags | libc::O_CLOEXEC as u64, mode, resolve };
    loop {
        let r = unsafe {
            libc::syscall(
                libc::SYS_openat2,
                dirfd,
                p.as_ptr(),
                &how as *const OpenHow,
                std::mem::size_of::<OpenHow>(),
            )
        };
        if r >= 0 {
            return Ok(r as RawFd);
        }
        let e = errno();
        if e == libc::EAGAIN || e == libc::EINTR {
            continue;
        }
        return Err(e);
    }
}

pub fn openat(dirfd: RawFd, path: &[u8], flags: i32, mode: u32) -> Result<RawFd, i32> {
    let p = cstr(path);
    let r = unsafe { libc::openat(dirfd, p.as_ptr(), flags | libc::O_CLOEXEC, mode) };
    if r >= 0 {
        Ok(r)
    } else {
        Err(errno())
    }
}

pub fn open(path: &[u8], flags: i32, mode: u32) -> Result<RawFd, i32> {
    openat(libc::AT_FDCWD, path, flags, mode)
}

pub fn close(fd: RawFd) {
    unsafe {
        libc::close(fd);
    }
}

pub fn fstat(fd: RawFd) -> Result<libc::stat, i32> {
    let mut st: libc::stat = unsafe { std::mem::zeroed() };
    let r = unsafe { libc::fstat(fd, &mut st) };
    if r == 0 {
        Ok(st)
    } else {
        Err(errno())
    }
}

pub fn fstatat(dirfd: RawFd, path: &[u8], flags: i32) -> Result<libc::stat, i32> {
    let p = cstr(path);
    let mut st: libc::stat = unsafe { std::mem::zeroed() };
    let r = unsafe { libc::fstatat(dirfd, p.as_ptr(), &mut st, flags) };
    if r == 0 {
        Ok(st)
    } else {
        Err(errno())
    }
}

pub fn lstat(path: &[u8]) -> Result<libc::stat, i32> {
    fstatat(libc::AT_FDCWD, path, libc::AT_SYMLINK_NOFOLLOW)
}

pub fn fs_type(fd: RawFd) -> Result<i64, i32> {
    let mut st: libc::statfs = unsafe { std::mem::zeroed() };
    let r = unsafe { libc::fstatfs(fd, &mut st) };
    if r == 0 {
        Ok(st.f_type as i64)
    } else {
        Err(errno())
    }
}

pub const PROC_SUPER_MAGIC: i64 = 0x9fa0;
pub const TMPFS_MAGIC: i64 = 0x0102_1994;

/// mount id of the object `fd` refers to (STATX_MNT_ID).
pub fn mnt_id(fd: RawFd) -> Result<u64, i32> {
    let mut stx: libc::statx = unsafe { std::mem::zeroed() };
    let empty = b"\0";
    let r = unsafe {
        libc::statx(
            fd,
            empty.as_ptr() as *const libc::c_char,
            libc::AT_EMPTY_PATH | libc::AT_SYMLINK_NOFOLLOW,
            0x1000, /* STATX_MNT_ID */
            &mut stx,
        )
    };
    if r == 0 {
        Ok(stx.stx_mnt_id)
    } else {
        Err(errno())
    }
}

pub fn readlinkat(dirfd: RawFd, path: &[u8]) -> Result<Vec<u8>, i32> {
    let p = cstr(path);
    let mut buf = vec![0u8; 8192];
    let r = unsafe { libc::readlinkat(dirfd, p.as_ptr(), buf.as_mut_ptr() as *mut libc::c_char, buf.len()) };
    if r >= 0 {
        buf.truncate(r as usize);
        Ok(buf)
    } else {
        Err(errno())
    }
}

pub static PRISTINE_PROC: std::sync::atomic::AtomicI32 = std::sync::atomic::AtomicI32::new(-1);

/// Path of a descriptor, read through the harness's own pristine procfs (the
/// namespace's /proc may be over-mounted by the attacker).
pub fn fd_path(fd: RawFd) -> Vec<u8> {
    let pp = PRISTINE_PROC.load(std::sync::atomic::Ordering::Relaxed);
    if pp >= 0 {
        readlinkat(pp, format!("self/fd/{fd}").as_bytes()).unwrap_or_default()
    } else {
        readlinkat(libc::AT_FDCWD, format!("/proc/self/fd/{fd}").as_bytes()).unwrap_or_default()
    }
}

pub fn mkdirat(dirfd: RawFd, path: &[u8], mode: u32) -> Result<(), i32> {
    let p = cstr(path);
    if unsafe { libc::mkdirat(dirfd, p.as_ptr(), mode) } == 0 {
        Ok(())
    } else {
        Err(errno())
    }
}

pub fn mknodat(dirfd: RawFd, path: &[u8], mode: u32, dev: u64) -> Result<(), i32> {
    let p = cstr(path);
    if unsafe { libc::mknodat(dirfd, p.as_ptr(), mode, dev) } == 0 {
        Ok(())
    } else {
        Err(errno())
    }
}

pub fn symlinkat(target: &[u8], dirfd: RawFd, path: &[u8]) -> Result<(), i32> {
    let t = cstr(target);
    let p = cstr(path);
    if unsafe { libc::symlinkat(t.as_ptr(), dirfd, p.as_ptr()) } == 0 {
        Ok(())
    } else {
        Err(errno())
    }
}

pub fn linkat(od: RawFd, op: &[u8], nd: RawFd, np: &[u8], flags: i32) -> Result<(), i32> {
    let o = cstr(op);
    let n = cstr(np);
    if unsafe { libc::linkat(od, o.as_ptr(), nd, n.as_ptr(), flags) } == 0 {
        Ok(())
    } else {
        Err(errno())
    }
}

pub fn unlinkat(dirfd: RawFd, path: &[u8], flags: i32) -> Result<(), i32> {
    let p = cstr(path);
    if unsafe { libc::unlinkat(dirfd, p.as_ptr(), flags) } == 0 {
        Ok(())
    } else {
        Err(errno())
    }
}

pub fn renameat2(od: RawFd, op: &[u8], nd: RawFd, np: &[u8], flags: u32) -> Result<(), i32> {
    let o = cstr(op);
    let n = cstr(np);
    let r = unsafe { libc::syscall(libc::SYS_renameat2, od, o.as_ptr(), nd, n.as_ptr(), flags) };
    if r == 0 {
        Ok(())
    } else {
        Err(errno())
    }
}

pub fn fchownat(dirfd: RawFd, path: &[u8], uid: u32, gid: u32) -> Result<(), i32> {
    let p = cstr(path);
    if unsafe { libc::fchownat(dirfd, p.as_ptr(), uid, gid, libc::AT_SYMLINK_NOFOLLOW) } == 0 {
        Ok(())
    } else {
        Err(errno())
    }
}

pub fn fchmodat(dirfd: RawFd, path: &[u8], mode: u32) -> Result<(), i32> {
    let p = cstr(path);
    if unsafe { libc::fchmodat(dirfd, p.as_ptr(), mode, 0) } == 0 {
        Ok(())
    } else {
        Err(errno())
    }
}

pub fn write_file(path: &[u8], content: &[u8], mode: u32) -> Result<(), i32> {
    let fd = open(path, libc::O_WRONLY | libc::O_CREAT | libc::O_TRUNC, mode)?;
    let r = unsafe { libc::write(fd, content.as_ptr() as *const libc::c_void, content.len()) };
    let e = errno();
    close(fd);
    if r as usize == content.len() {
        Ok(())
    } else {
        Err(e)
    }
}

pub fn read_fd_all(fd: RawFd, max: usize) -> Vec<u8> {
    let mut out = Vec::new();
    let mut buf = [0u8; 4096];
    loop {
        let r = unsafe { libc::pread(fd, buf.as_mut_ptr() as *mut libc::c_void, buf.len(), out.len() as i64) };
        if r <= 0 {
            break;
        }
        out.extend_from_slice(&buf[..r as usize]);
        if out.len() >= max {
            break;
        }
    }
    out
}

pub fn read_file(path: &[u8], max: usize) -> Result<Vec<u8>, i32> {
    let fd = open(path, libc::O_RDONLY | libc::O_NONBLOCK | libc::O_NOFOLLOW, 0)?;
    let v = read_fd_all(fd, max);
    close(fd);
    Ok(v)
}

pub fn mount(src: &str, tgt: &[u8], fstype: &str, flags: u64, data: &str) -> Result<(), i32> {
    let s = cstr(src.as_bytes());
    let t = cstr(tgt);
    let f = cstr(fstype.as_bytes());
    let d = cstr(data.as_bytes());
    let r = unsafe {
        libc::mount(
            if src.is_empty() { std::ptr::null() } else { s.as_ptr() },
            t.as_ptr(),
            if fstype.is_empty() { std::ptr::null() } else { f.as_ptr() },
            flags,
            if data.is_empty() { std::ptr::null() } else { d.as_ptr() as *const libc::c_void },
        )
    };
    if r == 0 {
        Ok(())
    } else {
        Err(errno())
    }
}

pub fn umount(tgt: &[u8]) -> Result<(), i32> {
    let t = cstr(tgt);
    if unsafe { libc::umount2(t.as_ptr(), libc::MNT_DETACH) } == 0 {
        Ok(())
    } else {
        Err(errno())
    }
}

/// List directory entry names (excluding . and ..), sorted.
pub fn listdir_fd(fd: RawFd) -> Result<Vec<Vec<u8>>, i32> {
    // dup so that closedir does not close the caller's fd
    let d = openat(fd, b".", libc::O_RDONLY | libc::O_DIRECTORY, 0)?;
    let dir = unsafe { libc::fdopendir(d) };
    if dir.is_null() {
        let e = errno();
        close(d);
        return Err(e);
    }
    let mut out = Vec::new();
    loop {
        let ent = unsafe { libc::readdir(dir) };
        if ent.is_null() {
            break;
        }
        let name = unsafe { std::ffi::CStr::from_ptr((*ent).d_name.as_ptr()) }.to_bytes().to_vec();
        if name == b"." || name == b".." {
            continue;
        }
        out.push(name);
    }
    unsafe { libc::closedir(dir) };
    out.sort();
    Ok(out)
}

pub fn listdir(path: &[u8]) -> Result<Vec<Vec<u8>>, i32> {
    let fd = open(path, libc::O_RDONLY | libc::O_DIRECTORY | libc::O_NOFOLLOW, 0)?;
    let r = listdir_fd(fd);
    close(fd);
    r
}

/// Directory entries in *kernel order* (getdents order), excluding . and ..
pub fn listdir_fd_raw_order(fd: RawFd) -> Result<Vec<Vec<u8>>, i32> {
    let d = openat(fd, b".", libc::O_RDONLY | libc::O_DIRECTORY, 0)?;
    let dir = unsafe { libc::fdopendir(d) };
    if dir.is_null() {
        let e = errno();
        close(d);
        return Err(e);
    }
    let mut out = Vec::new();
    loop {
        let ent = unsafe { libc::readdir(dir) };
        if ent.is_null() {
            break;
        }
        let name = unsafe { std::ffi::CStr::from_ptr((*ent).d_name.as_ptr()) }.to_bytes().to_vec();
        if name == b"." || name == b".." {
            continue;
        }
        out.push(name);
    }
    unsafe { libc::closedir(dir) };
    Ok(out)
}

pub fn rm_rf(path: &[u8]) {
    if let Ok(st) = lstat(path) {
        if st.st_mode & libc::S_IFMT == libc::S_IFDIR {
            if let Ok(ents) = listdir(path) {
                for e in ents {
                    let mut p = path.to_vec();
                    p.push(b'/');
                    p.extend_from_slice(&e);
                    rm_rf(&p);
                }
            }
            let _ = unlinkat(libc::AT_FDCWD, path, libc::AT_REMOVEDIR);
        } else {
            let _ = unlinkat(libc::AT_FDCWD, path, 0);
        }
    }
}

pub fn fcntl_getfd(fd: RawFd) -> i32 {
    unsafe { libc::fcntl(fd, libc::F_GETFD) }
}
pub fn fcntl_getfl(fd: RawFd) -> i32 {
    unsafe { libc::fcntl(fd, libc::F_GETFL) }
}

pub fn dup_above(fd: RawFd, min: RawFd) -> Result<RawFd, i32> {
    let r = unsafe { libc::fcntl(fd, libc::F_DUPFD_CLOEXEC, min) };
    if r >= 0 {
        Ok(r)
    } else {
        Err(errno())
    }
}

pub fn dup3(old: RawFd, new: RawFd, flags: i32) -> Result<RawFd, i32> {
    let r = unsafe { libc::dup3(old, new, flags) };
    if r >= 0 {
        Ok(r)
    } else {
        Err(errno())
    }
}

pub fn gettid() -> i32 {
    unsafe { libc::syscall(libc::SYS_gettid) as i32 }
}

pub fn now_s() -> f64 {
    let mut ts: libc::timespec = unsafe { std::mem::zeroed() };
    unsafe { libc::clock_gettime(libc::CLOCK_MONOTONIC, &mut ts) };
    ts.tv_sec as f64 + ts.tv_nsec as f64 * 1e-9
}

pub fn setrlimit_nofile(n: u64) {
    let rl = libc::rlimit { rlim_cur: n, rlim_max: n };
    unsafe { libc::setrlimit(libc::RLIMIT_NOFILE, &rl) };
}

// ---- new mount API (for private procfs instances owned by the harness) ----
pub fn fsopen_proc(subset: bool) -> Result<RawFd, i32> {
    unsafe {
        let fs = cstr(b"proc");
        let sfd = libc::syscall(libc::SYS_fsopen, fs.as_ptr(), 1 /*FSOPEN_CLOEXEC*/) as RawFd;
        if sfd < 0 {
            return Err(errno());
        }
        if subset {
            let k = cstr(b"subset");
            let v = cstr(b"pid");
            libc::syscall(libc::SYS_fsconfig, sfd, 1 /*SET_STRING*/, k.as_ptr(), v.as_ptr(), 0);
        }
        let r = libc::syscall(libc::SYS_fsconfig, sfd, 6 /*CMD_CREATE*/, 0usize, 0usize, 0);
        if r < 0 {
            let e = errno();
            close(sfd);
            return Err(e);
        }
        let mfd = libc::syscall(libc::SYS_fsmount, sfd, 1 /*FSMOUNT_CLOEXEC*/, 0) as RawFd;
        let e = errno();
        close(sfd);
        if mfd < 0 {
            return Err(e);
        }
        Ok(mfd)
    }
}

pub fn open_tree(dirfd: RawFd, path: &[u8], flags: u32) -> Result<RawFd, i32> {
    let p = cstr(path);
    let r = unsafe { libc::syscall(libc::SYS_open_tree, dirfd, p.as_ptr(), flags) } as RawFd;
    if r >= 0 {
        Ok(r)
    } else {
        Err(errno())
    }
}

pub fn hex(b: &[u8]) -> String {
    String::from_utf8_lossy(b).into_owned()
}

pub fn fnv(h: &mut u64, b: &[u8]) {
    for &c in b {
        *h ^= c as u64;
        *h = h.wrapping_mul(0x100_0000_01B3);
    }
}

pub fn fsmount_tmpfs() -> Result<RawFd, i32> {
    unsafe {
        let fs = cstr(b"tmpfs");
        let sfd = libc::syscall(libc::SYS_fsopen, fs.as_ptr(), 1) as RawFd;
        if sfd < 0 {
            return Err(errno());
        }
        let r = libc::syscall(libc::SYS_fsconfig, sfd, 6, 0usize, 0usize, 0);
        if r < 0 {
            let e = errno();
            close(sfd);
            return Err(e);
        }
        let mfd = libc::syscall(libc::SYS_fsmount, sfd, 1, 0) as RawFd;
        let e = errno();
        close(sfd);
        if mfd < 0 {
            return Err(e);
        }
        Ok(mfd)
    }
}

/// move_mount(from_fd, "", to_fd, "", F_EMPTY_PATH | T_EMPTY_PATH)
pub fn move_mount(from: RawFd, to: RawFd) -> Result<(), i32> {
    let empty = b"\0";
    let r = unsafe { libc::syscall(libc::SYS_move_mount, from, empty.as_ptr(), to, empty.as_ptr(), 0x4u32 | 0x40u32) };
    if r == 0 {
        Ok(())
    } else {
        Err(errno())
    }
}

pub fn umount_nofollow(tgt: &[u8]) -> Result<(), i32> {
    let t = cstr(tgt);
    if unsafe { libc::umount2(t.as_ptr(), libc::MNT_DETACH | 8 /*UMOUNT_NOFOLLOW*/) } == 0 {
        Ok(())
    } else {
        Err(errno())
    }
}
