//! Worlds: declarative trees materialised on a private tmpfs, inode labels
//! (inside / never-inside bookkeeping), snapshots, and the attacker's
//! repertoire of mutations.
#![allow(dead_code)]

use crate::sys;
use serde_json::{json, Value};
use std::collections::BTreeMap;

pub const TOP: &str = "/mnt/w";
pub const ROOT: &str = "/mnt/w/root";

#[derive(Clone, Debug, PartialEq)]
pub enum Kind {
    Dir,
    File(String),
    Fifo,
    Symlink(String),
    /// hard link to another world-relative path
    Hardlink(String),
    /// character device (major, minor)
    Chr(u32, u32),
}

#[derive(Clone, Debug, PartialEq)]
pub struct Entry {
    /// path relative to TOP, e.g. "root/a/b"
    pub path: String,
    pub kind: Kind,
    pub mode: u32,
    pub uid: u32,
    pub gid: u32,
}

impl Entry {
    pub fn new(path: &str, kind: Kind) -> Entry {
        let mode = match kind {
            Kind::Dir => 0o755,
            _ => 0o644,
        };
        Entry { path: path.to_string(), kind, mode, uid: 0, gid: 0 }
    }
    pub fn dir(path: &str) -> Entry {
        Entry::new(path, Kind::Dir)
    }
    pub fn file(path: &str, content: &str) -> Entry {
        Entry::new(path, Kind::File(content.to_string()))
    }
    pub fn link(path: &str, target: &str) -> Entry {
        Entry::new(path, Kind::Symlink(target.to_string()))
    }
    pub fn fifo(path: &str) -> Entry {
        Entry::new(path, Kind::Fifo)
    }
    pub fn hard(path: &str, target: &str) -> Entry {
        Entry::new(path, Kind::Hardlink(target.to_string()))
    }
    pub fn mode(mut self, m: u32) -> Entry {
        self.mode = m;
        self
    }
    pub fn own(mut self, uid: u32, gid: u32) -> Entry {
        self.uid = uid;
        self.gid = gid;
        self
    }
    pub fn to_json(&self) -> Value {
        let (k, arg): (&str, Value) = match &self.kind {
            Kind::Dir => ("dir", Value::Null),
            Kind::File(c) => ("file", json!(c)),
            Kind::Fifo => ("fifo", Value::Null),
            Kind::Symlink(t) => ("symlink", json!(t)),
            Kind::Hardlink(t) => ("hardlink", json!(t)),
            Kind::Chr(a, b) => ("chr", json!([a, b])),
        };
        json!([self.path, k, arg, self.mode, self.uid, self.gid])
    }
    pub fn from_json(v: &Value) -> Option<Entry> {
        let a = v.as_array()?;
        let path = a.first()?.as_str()?.to_string();
        let k = a.get(1)?.as_str()?;
        let arg = a.get(2).cloned().unwrap_or(Value::Null);
        let kind = match k {
            "dir" => Kind::Dir,
            "file" => Kind::File(arg.as_str().unwrap_or("").to_string()),
            "fifo" => Kind::Fifo,
            "symlink" => Kind::Symlink(arg.as_str().unwrap_or("").to_string()),
            "hardlink" => Kind::Hardlink(arg.as_str().unwrap_or("").to_string()),
            "chr" => Kind::Chr(arg[0].as_u64().unwrap_or(1) as u32, arg[1].as_u64().unwrap_or(3) as u32),
            _ => return None,
        };
        let mode = a.get(3).and_then(|x| x.as_u64()).unwrap_or(0o644) as u32;
        let uid = a.get(4).and_then(|x| x.as_u64()).unwrap_or(0) as u32;
        let gid = a.get(5).and_then(|x| x.as_u64()).unwrap_or(0) as u32;
        Some(Entry { path, kind, mode, uid, gid })
    }
}

#[derive(Clone, Debug, Default, PartialEq)]
pub struct WorldSpec {
    pub entries: Vec<Entry>,
}

impl WorldSpec {
    pub fn to_json(&self) -> Value {
        Value::Array(self.entries.iter().map(|e| e.to_json()).collect())
    }
    pub fn from_json(v: &Value) -> WorldSpec {
        WorldSpec {
            entries: v.as_array().map(|a| a.iter().filter_map(Entry::from_json).collect()).unwrap_or_default(),
        }
    }
    pub fn has(&self, path: &str) -> bool {
        self.entries.iter().any(|e| e.path == path)
    }
    pub fn push(&mut self, e: Entry) {
        if !self.has(&e.path) {
            self.entries.push(e);
        }
    }
}

#[derive(Clone, Copy, Debug, PartialEq, Eq)]
pub enum Zone {
    /// is, or at some point was, inside the root's tree (inside lineage)
    Inside,
    /// never inside the root
    Outside,
}

#[derive(Clone, Debug)]
pub struct Label {
    pub name: String,
    pub zone: Zone,
    pub ftype: u32,
    /// link body, for symlinks (bodies are unique per world, so a returned
    /// body can be attributed to the link it was read from)
    pub body: Option<Vec<u8>>,
}

pub type Ino = (u64, u64);

pub struct World {
    pub labels: BTreeMap<Ino, Label>,
    pub dev: u64,
    pub root_ino: Ino,
    pub created_seq: u32,
}

fn abs(rel: &str) -> Vec<u8> {
    if rel.starts_with('/') {
        rel.as_bytes().to_vec()
    } else if rel.is_empty() {
        TOP.as_bytes().to_vec()
    } else {
        format!("{TOP}/{rel}").into_bytes()
    }
}

/// Is the directory that holds the last component of `rel` (as the kernel would resolve it now,
/// links followed) inside the world area? A parent that cannot be opened is left to the mutation's
/// own system call to report.
fn parent_in_world(rel: &str) -> bool {
    let parent = match rel.rfind('/') {
        Some(i) => &rel[..i],
        None => "",
    };
    let fd = match sys::open(&abs(parent), libc::O_PATH | libc::O_DIRECTORY, 0) {
        Ok(fd) => fd,
        Err(_) => return true,
    };
    let p = sys::fd_path(fd);
    sys::close(fd);
    if p.is_empty() {
        // the path text could not be rendered (longer than a page): such parents are built by the
        // harness's own deep-path phases inside the world area
        return true;
    }
    let top = TOP.as_bytes();
    p == top || (p.starts_with(top) && p.get(top.len()) == Some(&b'/'))
}

pub fn zone_of_path(rel: &str) -> Zone {
    if rel == "root" || rel.starts_with("root/") {
        Zone::Inside
    } else {
        Zone::Outside
    }
}

impl World {
    /// Mount a fresh tmpfs on TOP's parent and build the tree.
    pub fn build(spec: &WorldSpec) -> Result<World, String> {
        // The tmpfs is mounted once per universe; between runs the world is
        // removed and rebuilt. (Mounting a fresh tmpfs per run would bump the
        // kernel-global mount_lock sequence and make every scoped openat2
        // lookup containing ".." on the whole machine return EAGAIN.)
        sys::rm_rf(TOP.as_bytes());
        if sys::lstat(TOP.as_bytes()).is_ok() {
            return Err("could not remove the previous world".into());
        }
        sys::mkdirat(libc::AT_FDCWD, TOP.as_bytes(), 0o755).map_err(|e| format!("mkdir top: {e}"))?;
        let st = sys::lstat(TOP.as_bytes()).map_err(|e| format!("stat top {e}"))?;
        let mut w = World { labels: BTreeMap::new(), dev: st.st_dev, root_ino: (0, 0), created_seq: 0 };
        w.labels.insert((st.st_dev, st.st_ino), Label { name: "".into(), zone: Zone::Outside, ftype: libc::S_IFDIR, body: None });
        let mut spec2 = spec.clone();
        if !spec2.has("root") {
            spec2.entries.insert(0, Entry::dir("root"));
        }
        for e in &spec2.entries {
            w.create_entry(e)?;
        }
        let rst = sys::lstat(ROOT.as_bytes()).map_err(|e| format!("stat root {e}"))?;
        w.root_ino = (rst.st_dev, rst.st_ino);
        Ok(w)
    }

    fn ensure_parents(&mut self, rel: &str) -> Result<(), String> {
        let mut acc = String::new();
        let comps: Vec<&str> = rel.split('/').collect();
        for c in &comps[..comps.len() - 1] {
            if !acc.is_empty() {
                acc.push('/');
            }
            acc.push_str(c);
            if sys::lstat(&abs(&acc)).is_err() {
                sys::mkdirat(libc::AT_FDCWD, &abs(&acc), 0o755).map_err(|e| format!("mkdir parent {acc}: {e}"))?;
                self.label_path(&acc, None);
            }
        }
        Ok(())
    }

    pub fn create_entry(&mut self, e: &Entry) -> Result<(), String> {
        self.ensure_parents(&e.path)?;
        let p = abs(&e.path);
        let r = match &e.kind {
            Kind::Dir => sys::mkdirat(libc::AT_FDCWD, &p, 0o755),
            Kind::File(c) => sys::write_file(&p, c.as_bytes(), 0o644),
            Kind::Fifo => sys::mknodat(libc::AT_FDCWD, &p, libc::S_IFIFO | 0o644, 0),
            Kind::Symlink(t) => sys::symlinkat(t.as_bytes(), libc::AT_FDCWD, &p),
            Kind::Hardlink(t) => sys::linkat(libc::AT_FDCWD, &abs(t), libc::AT_FDCWD, &p, 0),
            Kind::Chr(ma, mi) => sys::mknodat(libc::AT_FDCWD, &p, libc::S_IFCHR | 0o666, libc::makedev(*ma, *mi)),
        };
        r.map_err(|er| format!("create {}: {}", e.path, sys::errname(er)))?;
        if !matches!(e.kind, Kind::Symlink(_) | Kind::Hardlink(_)) {
            let _ = sys::fchmodat(libc::AT_FDCWD, &p, e.mode);
        }
        if e.uid != 0 || e.gid != 0 {
            let _ = sys::fchownat(libc::AT_FDCWD, &p, e.uid, e.gid);
        }
        self.label_path(&e.path, None);
        Ok(())
    }

    /// (Re)label the inode currently at `rel`. A label only ever moves from
    /// Outside to Inside, never back.
    pub fn label_path(&mut self, rel: &str, force: Option<Zone>) {
        if let Ok(st) = sys::lstat(&abs(rel)) {
            let zone = force.unwrap_or_else(|| zone_of_path(rel));
            let key = (st.st_dev, st.st_ino);
            match self.labels.get_mut(&key) {
                Some(l) => {
                    if zone == Zone::Inside {
                        l.zone = Zone::Inside;
                    }
                }
                None => {
                    let ftype = st.st_mode & libc::S_IFMT;
                    let body = if ftype == libc::S_IFLNK { sys::readlinkat(libc::AT_FDCWD, &abs(rel)).ok() } else { None };
                    self.labels.insert(key, Label { name: rel.to_string(), zone, ftype, body });
                }
            }
        }
    }

    pub fn label_ino(&mut self, key: Ino, name: String, zone: Zone, ftype: u32) {
        match self.labels.get_mut(&key) {
            Some(l) => {
                if zone == Zone::Inside {
                    l.zone = Zone::Inside;
                }
            }
            None => {
                self.labels.insert(key, Label { name, zone, ftype, body: None });
            }
        }
    }

    /// Mark the subtree currently at `rel` as having been inside the root.
    pub fn mark_inside_subtree(&mut self, rel: &str) {
        self.label_path(rel, Some(Zone::Inside));
        if let Ok(st) = sys::lstat(&abs(rel)) {
            if st.st_mode & libc::S_IFMT == libc::S_IFDIR {
                if let Ok(ents) = sys::listdir(&abs(rel)) {
                    for e in ents {
                        let child = format!("{rel}/{}", String::from_utf8_lossy(&e));
                        self.mark_inside_subtree(&child);
                    }
                }
            }
        }
    }

    pub fn lookup(&self, key: Ino) -> Option<&Label> {
        self.labels.get(&key)
    }

    pub fn zone_fd(&self, fd: i32) -> Option<(Ino, Option<&Label>)> {
        let st = sys::fstat(fd).ok()?;
        let key = (st.st_dev, st.st_ino);
        Some((key, self.labels.get(&key)))
    }

    /// Snapshot of everything outside the root, per the statement of C03:
    /// for every never-inside directory its entries (name -> ino,type), for
    /// every never-inside non-directory its metadata and body/content.
    /// Inside-lineage directories parked outside are recorded as entries but
    /// not descended into.
    pub fn outside_snapshot(&self) -> Vec<String> {
        let mut out = Vec::new();
        self.snap_dir("", &mut out, true);
        out
    }

    /// Snapshot of the whole world area (paths relative to TOP), inode numbers
    /// replaced by nothing: used for model / twin comparison.
    pub fn full_snapshot(&self, under: &str) -> Vec<String> {
        let mut out = Vec::new();
        Self::snap_full(under, &mut out);
        out
    }

    fn snap_dir(&self, rel: &str, out: &mut Vec<String>, outside_only: bool) {
        let p = abs(rel);
        let ents = match sys::listdir(&p) {
            Ok(e) => e,
            Err(_) => return,
        };
        for e in ents {
            let name = String::from_utf8_lossy(&e).into_owned();
            let child = if rel.is_empty() { name.clone() } else { format!("{rel}/{name}") };
            let st = match sys::lstat(&abs(&child)) {
                Ok(s) => s,
                Err(_) => continue,
            };
            let key = (st.st_dev, st.st_ino);
            let zone = self.labels.get(&key).map(|l| l.zone);
            let ft = st.st_mode & libc::S_IFMT;
            // the entry itself lives in an outside directory: always recorded
            out.push(format!("E {child} ino={} type={:o}", st.st_ino, ft));
            if outside_only && zone == Some(Zone::Inside) {
                continue; // inside lineage: contents are not "outside"
            }
            // an unlabelled object in an outside dir was created by somebody
            // other than world/attacker: it shows up as a new E line anyway.
            match ft {
                libc::S_IFDIR => {
                    out.push(format!("D {child} mode={:o} uid={} gid={}", st.st_mode & 0o7777, st.st_uid, st.st_gid));
                    self.snap_dir(&child, out, outside_only);
                }
                libc::S_IFLNK => {
                    let body = sys::readlinkat(libc::AT_FDCWD, &abs(&child)).unwrap_or_default();
                    out.push(format!("L {child} -> {}", String::from_utf8_lossy(&body)));
                }
                libc::S_IFREG => {
                    let c = sys::read_file(&abs(&child), 1 << 16).unwrap_or_default();
                    let mut h = 0xcbf29ce484222325u64;
                    sys::fnv(&mut h, &c);
                    out.push(format!(
                        "F {child} size={} mode={:o} uid={} nlink={} h={:x}",
                        st.st_size,
                        st.st_mode & 0o7777,
                        st.st_uid,
                        st.st_nlink,
                        h
                    ));
                }
                _ => {
                    out.push(format!("O {child} mode={:o} rdev={:x}", st.st_mode, st.st_rdev));
                }
            }
        }
    }

    fn snap_full(rel: &str, out: &mut Vec<String>) {
        let p = abs(rel);
        let ents = match sys::listdir(&p) {
            Ok(e) => e,
            Err(_) => return,
        };
        for e in ents {
            let name = String::from_utf8_lossy(&e).into_owned();
            let child = if rel.is_empty() { name.clone() } else { format!("{rel}/{name}") };
            let st = match sys::lstat(&abs(&child)) {
                Ok(s) => s,
                Err(_) => continue,
            };
            let ft = st.st_mode & libc::S_IFMT;
            match ft {
                libc::S_IFDIR => {
                    out.push(format!("D {child} mode={:o} uid={} gid={}", st.st_mode & 0o7777, st.st_uid, st.st_gid));
                    Self::snap_full(&child, out);
                }
                libc::S_IFLNK => {
                    let body = sys::readlinkat(libc::AT_FDCWD, &abs(&child)).unwrap_or_default();
                    out.push(format!("L {child} -> {} uid={}", String::from_utf8_lossy(&body), st.st_uid));
                }
                libc::S_IFREG => {
                    let c = sys::read_file(&abs(&child), 1 << 16).unwrap_or_default();
                    let mut h = 0xcbf29ce484222325u64;
                    sys::fnv(&mut h, &c);
                    out.push(format!(
                        "F {child} size={} mode={:o} uid={} gid={} nlink={} h={:x}",
                        st.st_size,
                        st.st_mode & 0o7777,
                        st.st_uid,
                        st.st_gid,
                        st.st_nlink,
                        h
                    ));
                }
                _ => {
                    out.push(format!(
                        "O {child} type={:o} mode={:o} uid={} gid={} rdev={:x}",
                        ft,
                        st.st_mode & 0o7777,
                        st.st_uid,
                        st.st_gid,
                        st.st_rdev
                    ));
                }
            }
        }
    }
}

// ---------------------------------------------------------------- attacker

#[derive(Clone, Debug, PartialEq)]
pub enum Mutation {
    Rename { src: String, dst: String },
    Exchange { a: String, b: String },
    Unlink { path: String },
    Rmdir { path: String },
    Mkdir { path: String },
    MkFile { path: String, content: String },
    Symlink { path: String, target: String },
    /// atomically replace whatever is at `path` by a symlink: the old object
    /// is parked at `park` (world-relative)
    SwapInSymlink { path: String, target: String, park: String },
    MountTmpfs { path: String },
    MountBind { src: String, dst: String },
    Umount { path: String },
    /// fd-based mount exactly on the named dentry (symlinks and magic-links
    /// included): src "" = a fresh tmpfs, otherwise a bind of src
    MountOn { src: String, dst: String, nofollow: bool },
    /// renumber a harness slot descriptor (C09)
    Dup3Slot { slot: usize, newfd: i32 },
    Chmod { path: String, mode: u32 },
    /// close a low descriptor of the process (0: the next descriptor the kernel hands out is 0)
    CloseFd { fd: i32 },
}

impl Mutation {
    pub fn to_json(&self) -> Value {
        match self {
            Mutation::Rename { src, dst } => json!(["rename", src, dst]),
            Mutation::Exchange { a, b } => json!(["exchange", a, b]),
            Mutation::Unlink { path } => json!(["unlink", path]),
            Mutation::Rmdir { path } => json!(["rmdir", path]),
            Mutation::Mkdir { path } => json!(["mkdir", path]),
            Mutation::MkFile { path, content } => json!(["mkfile", path, content]),
            Mutation::Symlink { path, target } => json!(["symlink", path, target]),
            Mutation::SwapInSymlink { path, target, park } => json!(["swapin_symlink", path, target, park]),
            Mutation::MountTmpfs { path } => json!(["mount_tmpfs", path]),
            Mutation::MountBind { src, dst } => json!(["mount_bind", src, dst]),
            Mutation::Umount { path } => json!(["umount", path]),
            Mutation::MountOn { src, dst, nofollow } => json!(["mount_on", src, dst, nofollow]),
            Mutation::Dup3Slot { slot, newfd } => json!(["dup3slot", slot, newfd]),
            Mutation::Chmod { path, mode } => json!(["chmod", path, mode]),
            Mutation::CloseFd { fd } => json!(["closefd", fd]),
        }
    }
    pub fn from_json(v: &Value) -> Option<Mutation> {
        let a = v.as_array()?;
        let s = |i: usize| a.get(i).and_then(|x| x.as_str()).unwrap_or("").to_string();
        let n = |i: usize| a.get(i).and_then(|x| x.as_i64()).unwrap_or(0);
        Some(match a.first()?.as_str()? {
            "rename" => Mutation::Rename { src: s(1), dst: s(2) },
            "exchange" => Mutation::Exchange { a: s(1), b: s(2) },
            "unlink" => Mutation::Unlink { path: s(1) },
            "rmdir" => Mutation::Rmdir { path: s(1) },
            "mkdir" => Mutation::Mkdir { path: s(1) },
            "mkfile" => Mutation::MkFile { path: s(1), content: s(2) },
            "symlink" => Mutation::Symlink { path: s(1), target: s(2) },
            "swapin_symlink" => Mutation::SwapInSymlink { path: s(1), target: s(2), park: s(3) },
            "mount_tmpfs" => Mutation::MountTmpfs { path: s(1) },
            "mount_bind" => Mutation::MountBind { src: s(1), dst: s(2) },
            "umount" => Mutation::Umount { path: s(1) },
            "mount_on" => Mutation::MountOn { src: s(1), dst: s(2), nofollow: a.get(3).and_then(|x| x.as_bool()).unwrap_or(false) },
            "dup3slot" => Mutation::Dup3Slot { slot: n(1) as usize, newfd: n(2) as i32 },
            "chmod" => Mutation::Chmod { path: s(1), mode: n(2) as u32 },
            "closefd" => Mutation::CloseFd { fd: n(1) as i32 },
            _ => return None,
        })
    }
    pub fn kind(&self) -> &'static str {
        match self {
            Mutation::Rename { src, dst } => {
                let (a, b) = (zone_of_path(src), zone_of_path(dst));
                match (a, b) {
                    (Zone::Inside, Zone::Inside) => "rename_within",
                    (Zone::Inside, Zone::Outside) => "move_out",
                    (Zone::Outside, Zone::Inside) => "move_in",
                    _ => "rename_outside",
                }
            }
            Mutation::Exchange { .. } => "exchange",
            Mutation::Unlink { .. } => "unlink",
            Mutation::Rmdir { .. } => "rmdir",
            Mutation::Mkdir { .. } => "mkdir",
            Mutation::MkFile { .. } => "mkfile",
            Mutation::Symlink { .. } => "symlink",
            Mutation::SwapInSymlink { .. } => "swapin_symlink",
            Mutation::MountTmpfs { .. } => "mount_tmpfs",
            Mutation::MountBind { .. } => "mount_bind",
            Mutation::Umount { .. } => "umount",
            Mutation::MountOn { src, .. } => {
                if src.is_empty() {
                    "mount_tmpfs_on"
                } else {
                    "mount_bind_on"
                }
            }
            Mutation::Dup3Slot { .. } => "dup3slot",
            Mutation::Chmod { .. } => "chmod",
            Mutation::CloseFd { .. } => "closefd",
        }
    }
}

impl World {
    /// Is the entry `rel` (world-relative, may lead through symlinks the
    /// attacker planted earlier) located under the root directory *now*?
    /// Decided by walking ".." from the entry's real parent directory up to
    /// the root inode - not lexically, and independent of the root's name.
    pub fn under_root_now(&self, rel: &str) -> bool {
        let parent = match rel.rfind('/') {
            Some(i) => &rel[..i],
            None => "",
        };
        let mut fd = match sys::open(&abs(parent), libc::O_PATH | libc::O_DIRECTORY, 0) {
            Ok(fd) => fd,
            Err(_) => return false,
        };
        let mut inside = false;
        for _ in 0..64 {
            let st = match sys::fstat(fd) {
                Ok(s) => s,
                Err(_) => break,
            };
            if (st.st_dev, st.st_ino) == self.root_ino {
                inside = true;
                break;
            }
            let up = match sys::openat(fd, b"..", libc::O_PATH | libc::O_DIRECTORY, 0) {
                Ok(u) => u,
                Err(_) => break,
            };
            let ust = sys::fstat(up).ok();
            sys::close(fd);
            fd = up;
            if ust.map(|u| (u.st_dev, u.st_ino) == (st.st_dev, st.st_ino)).unwrap_or(true) {
                break; // reached "/"
            }
        }
        sys::close(fd);
        inside
    }

    /// Where is the entry `rel` really (world-relative, symlinks in the
    /// directory part resolved)? Must be asked *before* a rename changes what
    /// the path means.
    pub fn real_of(&self, rel: &str) -> Option<String> {
        let (parent, base) = match rel.rfind('/') {
            Some(i) => (&rel[..i], &rel[i + 1..]),
            None => ("", rel),
        };
        let fd = sys::open(&abs(parent), libc::O_PATH | libc::O_DIRECTORY, 0).ok()?;
        let p = String::from_utf8_lossy(&sys::fd_path(fd)).into_owned();
        sys::close(fd);
        let relp = p.strip_prefix(TOP)?.trim_start_matches('/').to_string();
        Some(if relp.is_empty() { base.to_string() } else { format!("{relp}/{base}") })
    }

    fn zone_now(&self, rel: &str) -> Zone {
        if self.under_root_now(rel) {
            Zone::Inside
        } else {
            Zone::Outside
        }
    }

    /// Apply one attacker mutation. Returns Ok(true) if it took effect.
    /// Label bookkeeping: anything the attacker creates is labelled by the
    /// zone of the directory it is created in; anything moved from outside to
    /// a place under the root becomes inside (with its subtree).
    pub fn apply(&mut self, m: &Mutation) -> Result<bool, i32> {
        // The attacker lives in the world area. Its paths are lexical, but the tree they are applied
        // to is not symlink-free: the library under test (rename/exchange) and earlier mutations can
        // put a link with an absolute body (the race world's "/../../etc") where a later mutation
        // expects a directory, and the kernel would then carry the mutation out on the *host*. A
        // mutation whose parent directory is not in the world area is refused (it does not take effect).
        {
            let named: Vec<&str> = match m {
                Mutation::Rename { src, dst } => vec![src, dst],
                Mutation::Exchange { a, b } => vec![a, b],
                Mutation::Unlink { path } | Mutation::Rmdir { path } | Mutation::Mkdir { path } | Mutation::Chmod { path, .. } => vec![path],
                Mutation::MkFile { path, .. } | Mutation::Symlink { path, .. } => vec![path],
                Mutation::SwapInSymlink { path, park, .. } => vec![path, park],
                _ => vec![],
            };
            for rel in named {
                if !rel.starts_with('/') && !parent_in_world(rel) {
                    return Err(libc::EXDEV);
                }
            }
            if let Mutation::Chmod { path, .. } = m {
                // fchmodat follows a trailing link
                if !path.starts_with('/') {
                    if let Ok(st) = sys::lstat(&abs(path)) {
                        if st.st_mode & libc::S_IFMT == libc::S_IFLNK {
                            return Err(libc::ELOOP);
                        }
                    }
                }
            }
        }
        match m {
            Mutation::Rename { src, dst } => {
                // where the destination really is, and whether that is under the root,
                // is decided before the rename changes what the paths mean
                let (zd, rd) = (self.zone_now(dst), self.real_of(dst));
                sys::renameat2(libc::AT_FDCWD, &abs(src), libc::AT_FDCWD, &abs(dst), 0)?;
                if zd == Zone::Inside {
                    self.mark_inside_subtree(rd.as_deref().unwrap_or(dst));
                }
                Ok(true)
            }
            Mutation::Exchange { a, b } => {
                let (za, zb, ra, rb) = (self.zone_now(a), self.zone_now(b), self.real_of(a), self.real_of(b));
                sys::renameat2(libc::AT_FDCWD, &abs(a), libc::AT_FDCWD, &abs(b), 2 /*RENAME_EXCHANGE*/)?;
                if za == Zone::Inside {
                    self.mark_inside_subtree(ra.as_deref().unwrap_or(a));
                }
                if zb == Zone::Inside {
                    self.mark_inside_subtree(rb.as_deref().unwrap_or(b));
                }
                Ok(true)
            }
            Mutation::Unlink { path } => {
                sys::unlinkat(libc::AT_FDCWD, &abs(path), 0)?;
                Ok(true)
            }
            Mutation::Rmdir { path } => {
                sys::unlinkat(libc::AT_FDCWD, &abs(path), libc::AT_REMOVEDIR)?;
                Ok(true)
            }
            Mutation::Mkdir { path } => {
                sys::mkdirat(libc::AT_FDCWD, &abs(path), 0o755)?;
                self.label_new(path);
                Ok(true)
            }
            Mutation::MkFile { path, content } => {
                if sys::lstat(&abs(path)).is_ok() {
                    return Err(libc::EEXIST);
                }
                sys::write_file(&abs(path), content.as_bytes(), 0o644)?;
                self.label_new(path);
                Ok(true)
            }
            Mutation::Symlink { path, target } => {
                sys::symlinkat(target.as_bytes(), libc::AT_FDCWD, &abs(path))?;
                self.label_new(path);
                Ok(true)
            }
            Mutation::SwapInSymlink { path, target, park } => {
                // create the link next to the park position, then exchange
                sys::symlinkat(target.as_bytes(), libc::AT_FDCWD, &abs(park))?;
                // the link is created outside but is about to be inside: it is
                // the attacker's own object, label it by its destination
                let z = self.zone_now(path);
                let rp = self.real_of(path);
                self.label_path(park, Some(z));
                match sys::renameat2(libc::AT_FDCWD, &abs(park), libc::AT_FDCWD, &abs(path), 2) {
                    Ok(()) => {
                        if z == Zone::Inside {
                            self.mark_inside_subtree(rp.as_deref().unwrap_or(path));
                        }
                        Ok(true)
                    }
                    Err(e) => {
                        let _ = sys::unlinkat(libc::AT_FDCWD, &abs(park), 0);
                        Err(e)
                    }
                }
            }
            Mutation::MountTmpfs { path } => {
                sys::mount("tmpfs", &abs(path), "tmpfs", 0, "")?;
                Ok(true)
            }
            Mutation::MountBind { src, dst } => {
                sys::mount(src, &abs(dst), "", libc::MS_BIND, "")?;
                Ok(true)
            }
            Mutation::Umount { path } => {
                // "nofollow:<path>": the mount sits on a symlink / magic-link dentry
                match path.strip_prefix("nofollow:") {
                    Some(p) => sys::umount_nofollow(&abs(p))?,
                    None => sys::umount(&abs(path))?,
                }
                Ok(true)
            }
            Mutation::Chmod { path, mode } => {
                sys::fchmodat(libc::AT_FDCWD, &abs(path), *mode)?;
                Ok(true)
            }
            Mutation::CloseFd { fd } => {
                if *fd >= 0 && *fd < 3 {
                    sys::close(*fd);
                }
                Ok(true)
            }
            Mutation::MountOn { src, dst, nofollow } => {
                let dfl = libc::O_PATH | if *nofollow { libc::O_NOFOLLOW } else { 0 };
                let dfd = sys::open(&abs(dst), dfl, 0)?;
                let tree = if src.is_empty() {
                    sys::fsmount_tmpfs()
                } else {
                    // "nofollow:<path>": the source is the symlink itself (AT_SYMLINK_NOFOLLOW)
                    match src.strip_prefix("nofollow:") {
                        Some(s) => sys::open_tree(libc::AT_FDCWD, &abs(s), 1 | 0x100 | libc::O_CLOEXEC as u32),
                        None => sys::open_tree(libc::AT_FDCWD, &abs(src), 1 /*OPEN_TREE_CLONE*/ | libc::O_CLOEXEC as u32),
                    }
                };
                let tree = match tree {
                    Ok(t) => t,
                    Err(e) => {
                        sys::close(dfd);
                        return Err(e);
                    }
                };
                let r = sys::move_mount(tree, dfd);
                sys::close(tree);
                sys::close(dfd);
                r.map(|_| true)
            }
            Mutation::Dup3Slot { .. } => Ok(false), // handled by the supervisor
        }
    }

    fn label_new(&mut self, rel: &str) {
        // An object the attacker creates is inside iff it is created under the
        // root *now* (attacker paths are lexical and symlink-free). Creating
        // something inside a directory that has been moved out of the root
        // does not make it "reachable from the root at some moment": it was
        // never inside. (Objects the *library* creates in such a directory
        // inherit the directory's inside lineage instead - see the supervisor.)
        let z = self.zone_now(rel);
        self.label_path(rel, Some(z));
    }
}
