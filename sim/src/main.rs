mod case;
mod checks;
mod coord;
mod gen;
mod ops;
mod rng;
mod seam;
mod sup;
mod sys;
mod world;

use coord::{Batch, DEFAULT_SEED};
use std::io::Read;

fn arg_val(args: &[String], name: &str) -> Option<String> {
    args.iter().position(|a| a == name).and_then(|i| args.get(i + 1).cloned())
}

fn main() {
    let args: Vec<String> = std::env::args().collect();
    let cmd = args.get(1).map(|s| s.as_str()).unwrap_or("");
    match cmd {
        "universe" => {
            let mut s = String::new();
            std::io::stdin().read_to_string(&mut s).expect("read batch");
            let v: serde_json::Value = serde_json::from_str(&s).expect("batch json");
            let b = Batch::from_json(&v);
            coord::batch_process(&b, &|u, b, st| checks::run_batch(u, b, st));
        }
        "check" => {
            let id = args.get(2).cloned().unwrap_or_default();
            let tier = arg_val(&args, "--tier").or_else(|| std::env::var("VERIF_TIER").ok()).unwrap_or_else(|| "quick".into());
            let seed = arg_val(&args, "--seed")
                .or_else(|| std::env::var("VERIF_SEED").ok())
                .and_then(|s| s.parse::<u64>().ok())
                .unwrap_or(DEFAULT_SEED);
            let jobs = arg_val(&args, "--jobs").and_then(|s| s.parse().ok()).unwrap_or(16usize);
            let code = checks::run_check(&id, &tier, seed, jobs);
            std::process::exit(code);
        }
        "top-seed" => {
            let t0 = sys::now_s();
            println!("{} ({:.2}s)", rng::top_of_range_seed(), sys::now_s() - t0);
        }
        "replay" => {
            let path = args.get(2).cloned().unwrap_or_default();
            std::process::exit(checks::replay(&path));
        }
        _ => {
            eprintln!("usage: simctl check <Cxx> [--tier quick|thorough] [--seed N] | replay <file> | universe");
            std::process::exit(2);
        }
    }
}
