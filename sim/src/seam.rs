//! The seam: the system-call boundary, taken over with seccomp user
//! notification. A filtered thread that makes any system call outside a short
//! allow-list is stopped in the kernel until the supervisor answers.
#![allow(dead_code)]

use crate::sys;
use std::os::unix::io::RawFd;

pub const HYPERCALL_NR: i64 = 0x5EC0;

// hypercall codes (arg0)
pub const HC_NEXT_JOB: u64 = 1; // worker idle, waits for a job
pub const HC_BEGIN_OP: u64 = 2; // arg1 = op index
pub const HC_END_OP: u64 = 3; // arg1 = op index
pub const HC_YIELD: u64 = 4;
pub const HC_LAUNCHER_PARK: u64 = 5;
pub const HC_JOB_DONE: u64 = 6;
/// arg2 = 1: the calls that follow are harness set-up, not libpathrs; 0: end
pub const HC_HARNESS: u64 = 7;
/// arg1 = descriptor number; arg2 = 1: the supervisor puts a decoy file at that
/// number in *its own* (the thread-group leader's) descriptor table, 0: removes it.
/// Used by callers that run with a private descriptor table (C09).
pub const HC_PLANT: u64 = 8;

#[repr(C)]
#[derive(Clone, Copy, Default, Debug)]
pub struct SeccompData {
    pub nr: i32,
    pub arch: u32,
    pub ip: u64,
    pub args: [u64; 6],
}

#[repr(C)]
#[derive(Clone, Copy, Default, Debug)]
pub struct Notif {
    pub id: u64,
    pub pid: u32,
    pub flags: u32,
    pub data: SeccompData,
}

#[repr(C)]
#[derive(Clone, Copy, Default, Debug)]
pub struct NotifResp {
    pub id: u64,
    pub val: i64,
    pub error: i32,
    pub flags: u32,
}

const SECCOMP_SET_MODE_FILTER: u64 = 1;
const SECCOMP_FILTER_FLAG_NEW_LISTENER: u64 = 1 << 3;
const SECCOMP_RET_ALLOW: u32 = 0x7fff_0000;
const SECCOMP_RET_USER_NOTIF: u32 = 0x7fc0_0000;
const SECCOMP_RET_KILL_PROCESS: u32 = 0x8000_0000;
const SECCOMP_USER_NOTIF_FLAG_CONTINUE: u32 = 1;
const IOCTL_NOTIF_RECV: u64 = 0xC050_2100;
const IOCTL_NOTIF_SEND: u64 = 0xC018_2101;
const AUDIT_ARCH_X86_64: u32 = 0xC000_003E;

#[repr(C)]
struct SockFilter {
    code: u16,
    jt: u8,
    jf: u8,
    k: u32,
}
#[repr(C)]
struct SockFprog {
    len: u16,
    filter: *const SockFilter,
}

/// System calls that never reach the supervisor: memory management, signals,
/// thread creation/exit and pure identity getters. None of them touches a
/// path, a descriptor or shared kernel state the properties talk about.
pub const ALLOW: &[i64] = &[
    libc::SYS_mmap,
    libc::SYS_mprotect,
    libc::SYS_munmap,
    libc::SYS_brk,
    libc::SYS_mremap,
    libc::SYS_madvise,
    libc::SYS_rt_sigaction,
    libc::SYS_rt_sigprocmask,
    libc::SYS_rt_sigreturn,
    libc::SYS_sigaltstack,
    libc::SYS_clone,
    libc::SYS_clone3,
    libc::SYS_exit,
    libc::SYS_exit_group,
    libc::SYS_set_robust_list,
    libc::SYS_rseq,
    libc::SYS_sched_getaffinity,
    libc::SYS_sched_yield,
    libc::SYS_prctl,
    libc::SYS_set_tid_address,
    libc::SYS_arch_prctl,
    libc::SYS_gettid,
    libc::SYS_getpid,
    libc::SYS_getuid,
    libc::SYS_geteuid,
    libc::SYS_getgid,
    libc::SYS_getegid,
    libc::SYS_tgkill,
];

/// Install the filter on the calling thread; returns the listener descriptor.
pub fn install_filter() -> Result<RawFd, i32> {
    let mut prog: Vec<SockFilter> = Vec::new();
    // ld arch
    prog.push(SockFilter { code: 0x20, jt: 0, jf: 0, k: 4 });
    // jeq arch ? next : kill
    prog.push(SockFilter { code: 0x15, jt: 1, jf: 0, k: AUDIT_ARCH_X86_64 });
    prog.push(SockFilter { code: 0x06, jt: 0, jf: 0, k: SECCOMP_RET_KILL_PROCESS });
    // ld nr
    prog.push(SockFilter { code: 0x20, jt: 0, jf: 0, k: 0 });
    let n = ALLOW.len();
    for (i, nr) in ALLOW.iter().enumerate() {
        // jeq nr ? goto allow : next
        let to_allow = (n - 1 - i) + 1; // skip remaining compares and the notif ret
        prog.push(SockFilter { code: 0x15, jt: to_allow as u8, jf: 0, k: *nr as u32 });
    }
    prog.push(SockFilter { code: 0x06, jt: 0, jf: 0, k: SECCOMP_RET_USER_NOTIF });
    prog.push(SockFilter { code: 0x06, jt: 0, jf: 0, k: SECCOMP_RET_ALLOW });
    let fprog = SockFprog { len: prog.len() as u16, filter: prog.as_ptr() };
    unsafe {
        libc::prctl(libc::PR_SET_NO_NEW_PRIVS, 1, 0, 0, 0);
        let r = libc::syscall(
            libc::SYS_seccomp,
            SECCOMP_SET_MODE_FILTER,
            SECCOMP_FILTER_FLAG_NEW_LISTENER,
            &fprog as *const SockFprog,
        );
        if r < 0 {
            Err(sys::errno())
        } else {
            Ok(r as RawFd)
        }
    }
}

/// Wait (up to timeout_ms) for the next notification. Ok(None) on timeout.
pub fn recv(listener: RawFd, timeout_ms: i32) -> Result<Option<Notif>, i32> {
    let mut pfd = libc::pollfd { fd: listener, events: libc::POLLIN, revents: 0 };
    loop {
        let r = unsafe { libc::poll(&mut pfd, 1, timeout_ms) };
        if r < 0 {
            let e = sys::errno();
            if e == libc::EINTR {
                continue;
            }
            return Err(e);
        }
        if r == 0 {
            return Ok(None);
        }
        break;
    }
    let mut n = Notif::default();
    loop {
        let r = unsafe { libc::ioctl(listener, IOCTL_NOTIF_RECV, &mut n as *mut Notif) };
        if r == 0 {
            return Ok(Some(n));
        }
        let e = sys::errno();
        if e == libc::EINTR {
            continue;
        }
        if e == libc::ENOENT {
            // the notifying thread was killed between poll and ioctl
            return Ok(None);
        }
        return Err(e);
    }
}

fn send(listener: RawFd, resp: &NotifResp) -> Result<(), i32> {
    let r = unsafe { libc::ioctl(listener, IOCTL_NOTIF_SEND, resp as *const NotifResp) };
    if r == 0 {
        Ok(())
    } else {
        Err(sys::errno())
    }
}

/// Let the kernel execute the call.
pub fn cont(listener: RawFd, id: u64) -> Result<(), i32> {
    send(listener, &NotifResp { id, val: 0, error: 0, flags: SECCOMP_USER_NOTIF_FLAG_CONTINUE })
}
/// Fail the call with errno (it is not executed).
pub fn fail(listener: RawFd, id: u64, e: i32) -> Result<(), i32> {
    send(listener, &NotifResp { id, val: 0, error: -e, flags: 0 })
}
/// Succeed with a value chosen by the supervisor (the call is not executed).
pub fn value(listener: RawFd, id: u64, v: i64) -> Result<(), i32> {
    send(listener, &NotifResp { id, val: v, error: 0, flags: 0 })
}

#[inline]
pub fn hypercall(code: u64, a1: u64, a2: u64) -> i64 {
    unsafe { libc::syscall(HYPERCALL_NR, code, a1, a2) }
}

/// Read a NUL-terminated string from our own address space (the trapped
/// thread lives in this process, so its pointers are ours).
pub unsafe fn read_cstr(ptr: u64) -> Vec<u8> {
    if ptr == 0 {
        return b"<NULL>".to_vec();
    }
    std::ffi::CStr::from_ptr(ptr as *const libc::c_char).to_bytes().to_vec()
}

pub fn sysname(nr: i64) -> &'static str {
    match nr {
        libc::SYS_read => "read",
        libc::SYS_write => "write",
        libc::SYS_open => "open",
        libc::SYS_close => "close",
        libc::SYS_stat => "stat",
        libc::SYS_fstat => "fstat",
        libc::SYS_lstat => "lstat",
        libc::SYS_lseek => "lseek",
        libc::SYS_ioctl => "ioctl",
        libc::SYS_pread64 => "pread64",
        libc::SYS_access => "access",
        libc::SYS_dup => "dup",
        libc::SYS_dup2 => "dup2",
        libc::SYS_dup3 => "dup3",
        libc::SYS_fcntl => "fcntl",
        libc::SYS_getdents64 => "getdents64",
        libc::SYS_getcwd => "getcwd",
        libc::SYS_chdir => "chdir",
        libc::SYS_fchdir => "fchdir",
        libc::SYS_rename => "rename",
        libc::SYS_mkdir => "mkdir",
        libc::SYS_rmdir => "rmdir",
        libc::SYS_link => "link",
        libc::SYS_unlink => "unlink",
        libc::SYS_symlink => "symlink",
        libc::SYS_readlink => "readlink",
        libc::SYS_chmod => "chmod",
        libc::SYS_fchmod => "fchmod",
        libc::SYS_chown => "chown",
        libc::SYS_statfs => "statfs",
        libc::SYS_fstatfs => "fstatfs",
        libc::SYS_futex => "futex",
        libc::SYS_openat => "openat",
        libc::SYS_mkdirat => "mkdirat",
        libc::SYS_mknodat => "mknodat",
        libc::SYS_mknod => "mknod",
        libc::SYS_fchownat => "fchownat",
        libc::SYS_newfstatat => "newfstatat",
        libc::SYS_unlinkat => "unlinkat",
        libc::SYS_renameat => "renameat",
        libc::SYS_linkat => "linkat",
        libc::SYS_symlinkat => "symlinkat",
        libc::SYS_readlinkat => "readlinkat",
        libc::SYS_fchmodat => "fchmodat",
        libc::SYS_faccessat => "faccessat",
        libc::SYS_faccessat2 => "faccessat2",
        libc::SYS_renameat2 => "renameat2",
        libc::SYS_getrandom => "getrandom",
        libc::SYS_statx => "statx",
        libc::SYS_open_tree => "open_tree",
        libc::SYS_move_mount => "move_mount",
        libc::SYS_fsopen => "fsopen",
        libc::SYS_fsconfig => "fsconfig",
        libc::SYS_fsmount => "fsmount",
        libc::SYS_openat2 => "openat2",
        libc::SYS_truncate => "truncate",
        libc::SYS_creat => "creat",
        libc::SYS_mount => "mount",
        libc::SYS_umount2 => "umount2",
        libc::SYS_poll => "poll",
        libc::SYS_nanosleep => "nanosleep",
        libc::SYS_clock_nanosleep => "clock_nanosleep",
        libc::SYS_setresuid => "setresuid",
        libc::SYS_setresgid => "setresgid",
        libc::SYS_setfsuid => "setfsuid",
        libc::SYS_umask => "umask",
        libc::SYS_getdents => "getdents",
        libc::SYS_utimensat => "utimensat",
        libc::SYS_ftruncate => "ftruncate",
        libc::SYS_execve => "execve",
        libc::SYS_execveat => "execveat",
        HYPERCALL_NR => "hypercall",
        _ => "sys?",
    }
}
