#!/bin/sh
# seedtest.sh <patch> <check>...   apply a property-breaking change to /repo, run the
# named checks (quick) against it, undo it. Results go to /tmp/seedtest (not /verif).
P=$1; shift
mkdir -p /tmp/seedtest; cp /verif/known_findings.json /verif/properties.jsonl /tmp/seedtest/
git -C /repo apply --3way "$P" 2>/tmp/seedtest/apply.err || git -C /repo apply "$P" || { echo "PATCH DOES NOT APPLY"; cat /tmp/seedtest/apply.err; git -C /repo checkout -- .; exit 2; }
/verif/check build || { git -C /repo reset -q; git -C /repo checkout -- . ; exit 2; }
for c in "$@"; do
  VERIF_DIR=/tmp/seedtest VERIF_NO_MINIMISE=${NOMIN:-1} /verif/sim/target/release/simctl check $c --tier ${TIER:-quick} > /tmp/seedtest/$c.log 2>&1
  echo "$c exit=$? $(tail -1 /tmp/seedtest/$c.log)"
  grep -h signature /tmp/seedtest/$c.log | sort | uniq -c | head -8
done
git -C /repo reset -q; git -C /repo checkout -- .
git -C /repo status --short | head -3
/verif/check build   # never leave a harness binary that was built against a changed /repo
