#!/bin/sh
# sweep_all.sh: run every kept property-breaking change (seeded/*/patch.diff) against the quick
# tier of its own property's check and of the checks its meta.json names; one line per (change, check)
OUT=${1:-/verif/seeded/SWEEP.txt}
: > $OUT.tmp
for d in /verif/seeded/*/; do
  id=$(basename $d)
  [ -f $d/patch.diff ] || continue
  checks=$(python3 - "$d/meta.json" <<'PY'
import json,re,sys
m=json.load(open(sys.argv[1]))
own=m.get('breaks_property','')
txt=json.dumps(m.get('checks_run_against_it',{}).get('caught_by',''))
cs=[own]+[c for c in re.findall(r'C\d\d',txt) if c!=own]
seen=[]
for c in cs:
    if c and c not in seen: seen.append(c)
print(' '.join(seen[:3]))
PY
)
  res=$(/verif/sim/seedtest.sh $d/patch.diff $checks 2>&1 | grep -v "^WARNING" | grep -E "exit=|PATCH DOES NOT|HARNESS-ERROR" | sed -E 's/ C[0-9]+ \[quick\].*new violations=([0-9]+).*/ new=\1/' | tr '\n' ';')
  echo "$id :: $res" >> $OUT.tmp
done
mv $OUT.tmp $OUT
