#!/usr/bin/env python3
import json,glob,collections,sys
pat=sys.argv[1] if len(sys.argv)>1 else '*'
c=collections.Counter(); ex={}
for f in glob.glob(f'/verif/replays/{pat}.json'):
    d=json.load(open(f))
    u=('K' if d['universe']['openat2'] else 'E')+('/fresh' if d.get('fresh') else '')
    key=(d['expect']['signature'],u)
    c[key]+=1
    ex.setdefault(key,[]).append((d['expect']['detail'][:300], json.dumps((d.get('extra') or {}).get('placement')), f))
for k,v in sorted(c.items()):
    print(v,k)
    for e in ex[k][:int(sys.argv[2]) if len(sys.argv)>2 else 2]:
        print('     ',e)
